"""Shared machinery for /verif/bin/vcheck: TLC runner + parsers, harness build/run, verdict rule,
known-findings filter, evidence writer.  python3 stdlib only."""
import json, os, re, subprocess, sys, time, hashlib, shutil

ROOT = os.path.dirname(os.path.dirname(os.path.abspath(__file__)))
SPEC = os.path.join(ROOT, "spec")
HARNESS = os.path.join(ROOT, "harness")
VDRIVE = os.path.join(HARNESS, "target", "debug", "vdrive")
TLA_CP = "/opt/veriftools/tla/tla2tools.jar:/opt/veriftools/tla/CommunityModules-deps.jar"
LEVELS = ("exploration", "fault_enumeration", "model_checking", "proof", "translation_validation", "other")


class ToolError(Exception):
    """Build failure, TLC failure, timeout, vacuous coverage, model invariant failure (exit 2)."""


class HangError(Exception):
    """The driver's watchdog fired while ONE case of the code under test had been in flight for minutes."""
    def __init__(self, info):
        Exception.__init__(self, "hang")
        self.info = info


STUCK_SECS = 240     # a single case in flight this long is a hang of the code under test, not a slow run


def log(*a):
    print(*a, flush=True)


def sh(cmd, timeout=None, env=None, cwd=None, stdin=None):
    e = dict(os.environ)
    if env:
        e.update({k: str(v) for k, v in env.items()})
    t0 = time.time()
    try:
        p = subprocess.run(cmd, cwd=cwd, env=e, timeout=timeout, stdout=subprocess.PIPE,
                           stderr=subprocess.STDOUT, input=stdin)
        out = p.stdout.decode("utf-8", "replace")
        return p.returncode, out, time.time() - t0
    except subprocess.TimeoutExpired as ex:
        out = (ex.stdout or b"").decode("utf-8", "replace")
        return 124, out + "\n[timeout after %ss]" % timeout, time.time() - t0


# --------------------------------------------------------------------------------------------
# harness

_built = False


def build_harness():
    """Always rebuild from /repo's current working tree (path dependencies); incremental."""
    global _built
    if _built:
        return VDRIVE
    lock_src = "/repo/Cargo.lock"
    lock_dst = os.path.join(HARNESS, "Cargo.lock")
    if not os.path.exists(lock_dst) and os.path.exists(lock_src):
        shutil.copy(lock_src, lock_dst)
    rc, out, dt = sh(["cargo", "build", "--offline", "--quiet"], cwd=HARNESS, timeout=1800,
                     env={"CARGO_NET_OFFLINE": "true"})
    if rc != 0:
        at = out.find("error"); raise ToolError("harness build failed (does /repo still compile with --cfg nexrad_verif?)\n" + out[max(at, 0):max(at, 0) + 3000])
    lay = os.path.join(HARNESS, "layouts.json")
    src = os.path.join(SPEC, "Icd.tla")
    if not os.path.exists(lay) or os.path.getmtime(lay) < os.path.getmtime(src):
        r = tlc("Gen_Icd", "Gen_Icd", env={"OUT": lay}, coverage=False, workers=1, timeout=300)
        require_model_ok(r, "Gen_Icd")
    _built = True
    return VDRIVE


def vdrive(args, timeout=1800, env=None, watchdog=None):
    """Run the driver.  rc 0 = ran to completion (mismatches are data in the --out file)."""
    build_harness()
    prog = os.path.join(ROOT, "run", "progress-%d.json" % os.getpid())
    if os.path.exists(prog):
        os.remove(prog)
    e = {"VERIF_PROGRESS": prog, "VERIF_WATCHDOG": os.environ.get("VERIF_WATCHDOG_OVERRIDE") or str(watchdog or max(300, int(timeout * 0.8)))}
    if env:
        e.update(env)
    env = e
    rc, out, dt = sh([VDRIVE] + [str(a) for a in args], timeout=timeout, env=env, cwd=ROOT)
    if rc == 3 and os.path.exists(prog):
        info = json.load(open(prog))
        os.remove(prog)
        if info.get("memory_runaway", 0) > 0 or info.get("stuck_for", 0) >= int(os.environ.get("VERIF_STUCK_OVERRIDE") or STUCK_SECS):
            raise HangError(info)
        raise ToolError("driver watchdog fired after %ss without a stuck case (slow run): %s" % (info.get("watchdog_secs"), info))
    if rc != 0:
        raise ToolError("vdrive %s failed rc=%s\n%s" % (" ".join(map(str, args)), rc, out[-4000:]))
    return out, dt


def read_ndjson(path):
    out = []
    with open(path) as f:
        for line in f:
            line = line.strip()
            if line:
                out.append(json.loads(line))
    return out


# --------------------------------------------------------------------------------------------
# TLC

class TlcResult:
    def __init__(self):
        self.rc = None
        self.out = ""
        self.generated = 0
        self.distinct = 0
        self.depth = 0
        self.coverage = {}      # action name -> (distinct, generated)
        self.prints = []        # raw lines that look like PrintT tuples
        self.replays = []       # PrintT("REPLAY " \o ToJson(..)) payloads
        self.ok = False
        self.wall = 0.0
        self.module = ""
        self.violated = None    # name of violated invariant / property

    def tuples(self, tag):
        """PrintT(<<"TAG", ...>>) lines parsed into python lists."""
        res = []
        for ln in self.prints:
            if ln.startswith('<<"%s"' % tag):
                res.append(parse_tla_value(ln))
        return res


_tok = re.compile(r'\s*(<<|>>|\{|\}|\[|\]|,|\|->|"(?:[^"\\]|\\.)*"|-?\d+|TRUE|FALSE|[A-Za-z_][A-Za-z0-9_]*)')


def parse_tla_value(s):
    """Parse the TLA+ value syntax TLC prints (tuples, sets, records, strings, ints, booleans)."""
    toks = _tok.findall(s)
    pos = [0]

    def peek():
        return toks[pos[0]] if pos[0] < len(toks) else None

    def take():
        t = toks[pos[0]]
        pos[0] += 1
        return t

    def val():
        t = take()
        if t == "<<":
            items = []
            while peek() != ">>":
                items.append(val())
                if peek() == ",":
                    take()
            take()
            return items
        if t == "{":
            items = []
            while peek() != "}":
                items.append(val())
                if peek() == ",":
                    take()
            take()
            return items
        if t == "[":
            rec = {}
            while peek() != "]":
                k = take()
                assert take() == "|->", s
                rec[k] = val()
                if peek() == ",":
                    take()
            take()
            return rec
        if t.startswith('"'):
            return json.loads(t)
        if t == "TRUE":
            return True
        if t == "FALSE":
            return False
        if re.fullmatch(r"-?\d+", t):
            return int(t)
        return t

    return val()


def tlc(module, cfg=None, run_dir=None, workers=8, timeout=900, env=None, xss="512m", xmx="12g",
        deque=False, simulate=None, depth=None, coverage=True, seed=None, deadlock=False, extra=None):
    """Run TLC on spec/<module>.tla with spec/<cfg>.cfg.  Raises ToolError on tool failure; an
    invariant violation is reported in result.violated (callers decide what that means)."""
    cfg = cfg or module
    run_dir = run_dir or os.path.join(ROOT, "run", "tlc")
    meta = os.path.join(run_dir, "tlc-" + cfg)
    shutil.rmtree(meta, ignore_errors=True)
    os.makedirs(meta, exist_ok=True)
    jopts = ["-XX:+UseParallelGC", "-Xss" + xss, "-Xmx" + xmx]
    if deque:
        jopts.append("-Dtlc2.tool.queue.IStateQueue=StateDeque")
    cmd = ["java"] + jopts + ["-cp", TLA_CP, "tlc2.TLC", "-workers", str(workers), "-metadir", meta,
                              "-cleanup", "-noGenerateSpecTE", "-config", cfg + ".cfg"]
    if coverage and simulate is None:
        cmd += ["-coverage", "1"]
    if not deadlock:
        cmd += ["-deadlock"]
    if simulate is not None:
        cmd += ["-simulate", "num=%d" % simulate]
    if depth is not None:
        cmd += ["-depth", str(depth)]
    if seed is not None:
        cmd += ["-seed", str(seed)]
    if extra:
        cmd += extra
    cmd.append(module + ".tla")
    e = {"JAVA_TOOL_OPTIONS": ""}
    if env:
        e.update(env)
    rc, out, dt = sh(cmd, timeout=timeout, env=e, cwd=SPEC)
    shutil.rmtree(meta, ignore_errors=True)
    r = TlcResult()
    r.rc, r.out, r.wall, r.module = rc, out, dt, module
    lines = out.splitlines()
    for idx, ln in enumerate(lines):
        m = re.match(r"(\d+) states generated, (\d+) distinct states found", ln)
        if m:
            r.generated, r.distinct = int(m.group(1)), int(m.group(2))
        m = re.match(r"The depth of the complete state graph search is (\d+)", ln)
        if m:
            r.depth = int(m.group(1))
        m = re.match(r"<(\w+) line \d+, col \d+ to line \d+, col \d+ of module (\w+)(?: \([\d ]+\))?>: (\d+):(\d+)", ln)
        if m:
            a = m.group(1)
            d, g = int(m.group(3)), int(m.group(4))
            od, og = r.coverage.get(a, (0, 0))
            r.coverage[a] = (max(od, d), max(og, g))
        if ln.startswith("<<"):
            # TLC's pretty-printer wraps a tuple that does not fit 80 columns over several lines
            # (<< "TAG",\n   "long signature",\n   30 >>): join it back, or a long signature is silently lost
            buf, k = ln, idx
            while buf.count("<<") > buf.count(">>") and k + 1 < len(lines) and k - idx < 200:
                k += 1
                buf += " " + lines[k].strip()
            if buf.count("<<") != buf.count(">>"):
                raise ToolError("unbalanced tuple in TLC output: " + buf[:300])
            buf = re.sub(r'<<\s+', '<<', buf)
            buf = re.sub(r'\s+>>', '>>', buf)
            r.prints.append(buf)
        if ln.startswith('"REPLAY '):
            try:
                r.replays.append(json.loads(json.loads(ln)[7:]))
            except Exception:
                raise ToolError("unparsable REPLAY line from TLC: " + ln[:200])
        m = re.match(r"Error: Invariant (\w+) is violated", ln)
        if m:
            r.violated = m.group(1)
        m = re.match(r"Error: (Action property|Temporal properties) (\w+)? ?(is|were) violated", ln)
        if m:
            r.violated = m.group(2) or "temporal"
        if "Assumption" in ln and "is false" in ln:
            r.violated = "ASSUME " + ln.strip()
    finished = ("Model checking completed. No error has been found." in out) or \
               (simulate is not None and rc == 0)
    r.ok = finished and r.violated is None
    if rc == 124:
        raise ToolError("TLC timeout on %s/%s after %ss\n%s" % (module, cfg, timeout, out[-2000:]))
    if not r.ok and r.violated is None:
        at = out.find("Error:")
        raise ToolError("TLC failed on %s/%s rc=%s\n%s" % (module, cfg, rc, out[at:at + 3000] if at >= 0 else out[-3000:]))
    return r


def require_model_ok(r, what=""):
    """A model-level invariant failure means spec and property disagree: tool error, never a
    VIOLATION of the code (DESIGN 4.3)."""
    if not r.ok:
        raise ToolError("model check %s failed: %s violated\n%s" % (what or r.module, r.violated, r.out[-6000:]))


def require_coverage(r, actions):
    """Vacuity guard: every named action must have been taken at least once."""
    missing = [a for a in actions if r.coverage.get(a, (0, 0))[1] == 0]
    if missing:
        raise ToolError("vacuous model run of %s: actions never taken: %s\ncoverage=%s" % (r.module, missing, r.coverage))


# --------------------------------------------------------------------------------------------
# verdicts

def load_findings():
    path = os.path.join(ROOT, "known_findings.jsonl")
    out = []
    if os.path.exists(path):
        for rec in read_ndjson(path):
            out.append(rec)
    return out


class Check:
    """Accumulates model-checking statistics, conformance counts and mismatches for one run."""

    def __init__(self, pid, tier, level="model_checking"):
        self.pid, self.tier, self.level = pid, tier, level
        self.seed = int(os.environ.get("VERIF_SEED", "1") or 1)
        self.t0 = time.time()
        self.states = 0
        self.transitions = 0
        self.traces = 0          # vectors replayed + recordings validated
        self.evaluations = 0
        self.distinct_nontrivial = 0
        self.samples = []
        self.mismatches = []     # dicts: kind, sig, detail, case
        self.coverage_by_action = {}
        self.drift = []
        self.extra = {}
        self.assumptions = []
        self.rule = ""
        self.exhaustive = False
        self.run_dir = os.path.join(ROOT, "run", pid)
        shutil.rmtree(self.run_dir, ignore_errors=True)
        os.makedirs(self.run_dir, exist_ok=True)
        self.replay_specs = {}   # sig -> dict describing how to re-run

    def path(self, name):
        return os.path.join(self.run_dir, name)

    # -- TLC steps -------------------------------------------------------------------------
    def model(self, module, cfg=None, actions=(), **kw):
        r = tlc(module, cfg, run_dir=self.run_dir, **kw)
        require_model_ok(r, cfg or module)
        if actions:
            require_coverage(r, actions)
        self.states += r.distinct
        self.transitions += r.generated
        for a, (d, g) in r.coverage.items():
            if g:
                self.coverage_by_action["%s.%s" % (cfg or module, a)] = g
        log("  [M] %s: %d distinct / %d generated states, depth %d, %.1fs" % (cfg or module, r.distinct, r.generated, r.depth, r.wall))
        return r

    def generate(self, module, cfg=None, out_name="vectors.ndjson", env=None, **kw):
        out = self.path(out_name)
        e = {"OUT": out}
        if env:
            e.update(env)
        kw.setdefault("coverage", False)
        r = tlc(module, cfg, run_dir=self.run_dir, env=e, **kw)
        require_model_ok(r, cfg or module)
        self.states += r.distinct
        self.transitions += r.generated
        if not os.path.exists(out):
            raise ToolError("generator %s wrote no vectors" % module)
        n = sum(1 for _ in open(out))
        log("  [G] %s: %d vectors from TLC (%.1fs)" % (cfg or module, n, r.wall))
        return out, n

    def replay(self, module, vectors, extra_args=(), timeout=1800, env=None):
        res = self.path("replay-%s.ndjson" % module)
        try:
            out, dt = vdrive([module, "replay", "--in", vectors, "--out", res, "--seed", self.seed,
                              "--tier", self.tier] + list(extra_args), timeout=timeout, env=env, watchdog=420 if self.tier == "quick" else None)
        except HangError as h:
            return self.hang(module, h)
        except ToolError as t:
            return self.after_violation(module, t)
        return self.absorb(res, "replay " + module, dt, {"module": module, "mode": "replay", "vectors": vectors, "args": list(extra_args)})

    def record(self, module, extra_args=(), out_name=None, timeout=1800, env=None):
        tr = self.path(out_name or ("trace-%s.ndjson" % module))
        res = self.path("record-%s.ndjson" % module)
        try:
            out, dt = vdrive([module, "record", "--out", tr, "--res", res, "--seed", self.seed,
                              "--tier", self.tier] + list(extra_args), timeout=timeout, env=env, watchdog=420 if self.tier == "quick" else None)
        except HangError as h:
            self.hang(module, h)
            open(tr, "w").close()
            return tr, 0
        except ToolError as t:
            self.after_violation(module, t)
            open(tr, "w").close()
            return tr, 0
        n = sum(1 for _ in open(tr)) if os.path.exists(tr) else 0
        log("  [T] %s: recorded %d events from the real code (%.1fs)" % (module, n, dt))
        if os.path.exists(res):
            self.absorb(res, "record " + module, dt, {"module": module, "mode": "record", "args": list(extra_args)})
        return tr, n

    def after_violation(self, module, t):
        """The driver died in a later step.  If an earlier step of this run already established a violation (with its replay
        file), that verdict stands and the crash is noted; otherwise it is a tool error."""
        if not any(m.get("kind") == "violation" for m in self.mismatches):
            raise t
        self.mismatches.append({"t": "mismatch", "kind": "drift", "sig": "%s/driver_stopped_after_violation" % self.pid,
                                "detail": "driver step %s failed after a violation had been established: %s" % (module, str(t)[-300:].replace("\n", " ")), "case": None})
        log("  [%s] driver failed after a violation was established; verdict stands" % module)
        return 0

    def hang(self, module, h):
        """The code under test did not return on one case: a violation of every totality/termination clause."""
        runaway = h.info.get("memory_runaway", 0)
        self.mismatches.append({"t": "mismatch", "kind": "violation", "sig": "%s/%s" % (self.pid, "memory_runaway" if runaway else "hang"),
                                "detail": ("the code under test held %d bytes of live heap on: %s" % (runaway, str(h.info.get("current"))[:400])) if runaway else
                                          "the code under test did not return for %ss on: %s" % (h.info.get("stuck_for"), str(h.info.get("current"))[:400]),
                                "case": h.info, "how": {"module": module}})
        log("  [%s] HANG: one case in flight for %ss" % (module, h.info.get("stuck_for")))
        return 0

    def absorb(self, res_path, label, dt, how):
        """Read a driver result file: summary line(s) + mismatch lines."""
        n_cases = 0
        for rec in read_ndjson(res_path):
            t = rec.get("t")
            if t == "summary":
                n_cases += rec.get("cases", 0)
                self.evaluations += rec.get("cases", 0)
                self.traces += rec.get("validated", rec.get("cases", 0))
                self.distinct_nontrivial += rec.get("distinct_nontrivial", 0)
                for s in rec.get("samples", [])[:3]:
                    if len(self.samples) < 8:
                        self.samples.append(s)
                for k, v in rec.get("extra", {}).items():
                    self.extra[k] = v
            elif t == "mismatch":
                rec = dict(rec)
                rec["how"] = how
                self.mismatches.append(rec)
        log("  [%s] %d cases (%.1fs), mismatches so far: %d" % (label, n_cases, dt, len(self.mismatches)))
        return n_cases

    def validate(self, module, trace, cfg=None, batch=True, sig_prefix="", how=None, **kw):
        """Trace validation by TLC.  The trace spec prints <<"MISMATCH", sig, i>> for every event it
        cannot explain and <<"TRACE-CONSUMED", n>> when it reached the end."""
        kw.setdefault("workers", 1)
        kw.setdefault("coverage", False)
        kw.setdefault("xss", "1g")
        if not batch:
            kw.setdefault("deque", True)
        if os.path.getsize(trace) == 0 and any(m.get("sig", "").endswith(("/hang", "/memory_runaway", "/driver_stopped_after_violation")) for m in self.mismatches):
            return None
        r = tlc(module, cfg, run_dir=self.run_dir, env={"TRACE": trace}, **kw)
        require_model_ok(r, cfg or module)
        self.states += r.distinct
        self.transitions += r.generated
        n = sum(1 for _ in open(trace))
        consumed = r.tuples("TRACE-CONSUMED")
        mism = r.tuples("MISMATCH")
        if not consumed and not mism:
            raise ToolError("trace spec %s neither consumed the trace nor explained why\n%s" % (module, r.out[-3000:]))
        events = None
        seen = {}
        for m in mism:
            sig, idx = m[1], m[2]
            if sig.startswith("TOOL/"):
                raise ToolError("trace spec %s: %s at event %s (specification and driver disagree)" % (module, sig, idx))
            detail = m[3:] if len(m) > 3 else []
            if sig in seen:
                seen[sig]["count"] += 1
                continue
            if events is None:
                events = open(trace).read().splitlines()
            ev = json.loads(events[idx - 1]) if 0 < idx <= len(events) else None
            rec = {"t": "mismatch", "kind": "violation", "sig": sig_prefix + sig, "detail": "TLC trace validation rejected event %d %s" % (idx, detail),
                   "case": ev, "count": 1, "how": how or {"module": module, "mode": "trace", "trace": trace}}
            seen[sig] = rec
            self.mismatches.append(rec)
        dseen = set()
        for d in r.tuples("DRIFT"):
            if d[1] not in dseen:
                dseen.add(d[1])
                self.mismatches.append({"t": "mismatch", "kind": "drift", "sig": sig_prefix + d[1], "detail": "event %s" % d[2], "case": None})
        if not mism and (not consumed or consumed[-1][1] != n):
            raise ToolError("trace spec %s stopped early without a mismatch line (%s of %d)" % (module, consumed, n))
        self.traces += 1
        self.evaluations += n
        log("  [T] %s: TLC validated %d events, %d states, mismatching signatures: %d (%.1fs)" % (module, n, r.distinct, len(seen), r.wall))
        return r

    # -- verdict ---------------------------------------------------------------------------
    def finish(self, level_text=""):
        findings = [f for f in load_findings() if f.get("property") == self.pid]
        known = {f["signature"]: f for f in findings if f.get("status") == "known"}
        viol, known_hit, drift = {}, {}, {}
        for m in self.mismatches:
            sig = m.get("sig", "unknown")
            if m.get("kind") == "drift":
                drift.setdefault(sig, m)
                continue
            k = None
            for ks in known:
                if sig == ks or sig.startswith(ks + "/"):
                    k = ks
            if k:
                known_hit.setdefault(k, m)
            else:
                viol.setdefault(sig, m)
        for k in sorted(known_hit):
            log("KNOWN-FINDING: property=%s %s [%s]" % (self.pid, known[k].get("what", ""), k))
        for sig, m in sorted(drift.items()):
            log("MODEL-DRIFT: property=%s %s %s" % (self.pid, sig, str(m.get("detail"))[:200]))
        rc = 0
        os.makedirs(os.path.join(ROOT, "replays"), exist_ok=True)
        for sig, m in sorted(viol.items()):
            name = "%s-%s.json" % (self.pid, re.sub(r"[^A-Za-z0-9_.-]+", "_", sig))[:150]
            path = os.path.join(ROOT, "replays", name)
            with open(path, "w") as f:
                json.dump({"property": self.pid, "signature": sig, "detail": m.get("detail"), "case": m.get("case"),
                           "how": m.get("how"), "seed": self.seed, "tier": self.tier}, f, indent=1)
            log("VIOLATION property=%s replay=%s" % (self.pid, path))
            log("  signature=%s detail=%s" % (sig, str(m.get("detail"))[:400]))
            rc = 1
        cov = {
            "states": self.states, "transitions": self.transitions,
            "traces_validated_against_impl": self.traces,
            "samples": self.samples[:8] or [{"note": "no sample recorded"}],
            "evaluations": max(self.evaluations, 1),
            "distinct_nontrivial": self.distinct_nontrivial,
            "rule": self.rule, "exhaustive": self.exhaustive,
            "coverage_by_action": self.coverage_by_action,
            "model_drift": sorted(drift.keys()),
            "known_findings_hit": sorted(known_hit.keys()),
            "violating_signatures": sorted(viol.keys()),
        }
        cov.update(self.extra)
        ev = {"property_id": self.pid, "tier": self.tier, "seed": self.seed, "level": self.level,
              "coverage": cov, "assumptions": self.assumptions, "wall_s": round(time.time() - self.t0, 2),
              "violations": len(viol)}
        validate_evidence(ev)
        os.makedirs(os.path.join(ROOT, "evidence"), exist_ok=True)
        with open(os.path.join(ROOT, "evidence", self.pid + ".json"), "w") as f:
            json.dump(ev, f, indent=1, sort_keys=True)
        log("%s %s: %s  (states=%d transitions=%d conformance cases=%d wall=%.1fs)" % (
            self.pid, self.tier, "VIOLATED" if rc else "held", self.states, self.transitions, self.traces, time.time() - self.t0))
        return rc


def validate_evidence(ev):
    """Minimal structural validation mirroring EVIDENCE.schema.json (jsonschema may be absent)."""
    for k in ("property_id", "tier", "seed", "level", "coverage", "wall_s"):
        if k not in ev:
            raise ToolError("evidence missing " + k)
    if ev["level"] not in LEVELS or ev["tier"] not in ("quick", "thorough"):
        raise ToolError("evidence level/tier invalid")
    c = ev["coverage"]
    if ev["level"] == "model_checking":
        if not (c.get("states", 0) >= 1 and c.get("transitions", 0) >= 1 and isinstance(c.get("samples"), list) and c["samples"]):
            raise ToolError("evidence: model_checking needs states>=1, transitions>=1, samples (got %s/%s)" % (c.get("states"), c.get("transitions")))
    else:
        if not (c.get("evaluations", 0) >= 1 and c.get("distinct_nontrivial", 0) >= 2 and c.get("samples")):
            raise ToolError("evidence: exploration keys invalid")
    try:
        import jsonschema  # optional
        schema = json.load(open("/root/.vp/EVIDENCE.schema.json"))
        jsonschema.validate(ev, schema)
    except ImportError:
        pass
    except Exception as ex:  # schema violation
        if ex.__class__.__name__ == "ValidationError":
            raise ToolError("evidence does not validate: %s" % ex)


def main_wrapper(fn):
    try:
        rc = fn()
    except ToolError as ex:
        log("TOOL-ERROR: %s" % ex)
        sys.exit(2)
    sys.exit(rc)


def write_ndjson(path, items):
    with open(path, "w") as f:
        for it in items:
            f.write(json.dumps(it) + "\n")


def run_replay(mod, pid, path):
    """Re-run the case stored in a replay file through the property's own replay hook."""
    rp = json.load(open(path))
    c = Check(pid, rp.get("tier", "quick"))
    c.seed = rp.get("seed", 1)
    c.run_dir = os.path.join(ROOT, "run", pid + "-replay")
    shutil.rmtree(c.run_dir, ignore_errors=True)
    os.makedirs(c.run_dir, exist_ok=True)
    if not hasattr(mod, "replay"):
        raise ToolError("no replay hook for " + pid)
    mod.replay(rp.get("case"), c)
    bad = [m for m in c.mismatches if m.get("kind") != "drift"]
    for m in bad:
        log("REPRODUCED %s: %s" % (m.get("sig"), str(m.get("detail"))[:300]))
    if not bad:
        log("not reproduced on the current tree")
    return 1 if bad else 0


def binding_selftest(c, module, trace, corrupt, cfg=None, batch=True, label=None, **kw):
    """DESIGN 4.4: corrupt one recorded field and require the trace validation to reject it.
    `corrupt(event_dict) -> bool` mutates an event in place and returns True once it did."""
    lines = open(trace).read().splitlines()
    out, done = [], False
    for ln in lines:
        if not done:
            e = json.loads(ln)
            if corrupt(e):
                done = True
                ln = json.dumps(e)
        out.append(ln)
    if not done:
        raise ToolError("binding self-test: nothing to corrupt in " + trace)
    p = c.path("corrupted-%s.ndjson" % (label or module))
    open(p, "w").write("\n".join(out) + "\n")
    kw.setdefault("workers", 1)
    kw.setdefault("coverage", False)
    kw.setdefault("xss", "1g")
    if not batch:
        kw.setdefault("deque", True)
    r = tlc(module, cfg, run_dir=c.run_dir, env={"TRACE": p}, **kw)
    mism = r.tuples("MISMATCH")
    if not mism:
        raise ToolError("binding self-test FAILED: %s accepted a corrupted recording" % module)
    c.extra.setdefault("binding_selftest", []).append({"trace_spec": module, "label": label, "rejected_with": mism[0][1]})
    log("  [B] binding self-test %s/%s: corrupted recording rejected (%s)" % (module, label, mism[0][1]))
