"""C14 -- Message summaries partition the message list and count it faithfully (Summary.tla)."""
import vlib


def run(tier):
    c = vlib.Check("C14", tier)
    thorough = tier == "thorough"
    c.rule = ("TLC runs the single-pass grouping machine on every message list up to length 5 over {R(el1), R(el2), R(el1)+VOL, Status, VCP, "
              "Other(15), Other(18)} (19,608 lists) and checks machine = declarative summary (tiling, maximal runs, singletons, continuation "
              "flag, per-group data-type counts, time range, VCP set). Every list up to length 4 (5 thorough) is assembled from real frames, "
              "decoded and summarized by the real code, all public fields compared. Seeded lists of 0..500 messages are recorded and the "
              "machine re-run by TLC. Non-trivial: at least two messages; distinct by abstract list.")
    c.assumptions = ["coded fields are kept inside their documented domains, as the statement requires", "EarliestIgnoresNonPositive: a timestamp at the epoch itself does not count for the earliest time (named deviation, modelled as the code does)"]
    vlib.build_harness()
    c.model("MC_Summary", "MC_Summary", actions=("Step", "Finish"), timeout=1800)
    vec, n = c.generate("Gen_Summary", "Gen_Summary_thorough" if thorough else "Gen_Summary", timeout=1800)
    c.replay("summary", vec)
    tr, n = c.record("summary")
    c.validate("Trace_Summary", tr, batch=False, timeout=3000)
    if thorough:
        def corrupt(e):
            if len(e["groups"]) >= 2 and not e["panic"]:
                e["groups"][1]["cont"] = not e["groups"][1]["cont"]
                return True
            return False
        vlib.binding_selftest(c, "Trace_Summary", tr, corrupt, batch=False, label="flip-continued", timeout=3000)
    c.exhaustive = True
    return c.finish()


def replay(case, c):
    p = c.path("one.ndjson")
    if "expected" in case:
        v = dict(case["expected"]); v["msgs"] = case["msgs"]
        vlib.write_ndjson(p, [v])
        c.replay("summary", p)
    else:
        vlib.write_ndjson(p, [case])
        c.validate("Trace_Summary", p, batch=False)
