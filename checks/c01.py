"""C01 -- Volume-to-scan conversion conserves every radial (Scan.tla over Sweep.tla)."""
import vlib, sysval


def run(tier):
    c = vlib.Check("C01", tier)
    thorough = tier == "thorough"
    c.rule = ("TLC explores the scan pipeline (NextRecord/TakeMessage/StartGrouping/Push/Flush/Finish) on every message stream of up to 4 "
              "symbols over {R(el0,VOL a), R(el0), R(el1,VOL b), R(el1), metadata} x every split into up to 3 records and checks "
              "conservation, maximal-run grouping, first-VOL latch and the no-VOL error. Every volume is concretised (real frames, real "
              "bzip2, 24-byte header, seeded moments/gates) and File::scan() compared: sweeps, labels, tags in order, each radial equal to "
              "its stand-alone decode, coverage pattern. Seeded volumes (1..255 elevations, SAILS repeats, up to 720 radials per elevation, "
              "metadata interleaved, random splits) are recorded and the pipeline re-run by TLC. Non-trivial: at least one radial.")
    c.assumptions = ["radial identity = (collection time, azimuth number) tag; radial content equality by PartialEq with finite angles and scale/offset",
                     "field-level fidelity of a single radial is C02/C07"]
    vlib.build_harness()
    c.model("MC_Scan", "MC_Scan" if thorough else "MC_Scan_quick", actions=("ANextRecord", "ATakeMessage", "AStartGrouping", "AGroup", "AFinish"), timeout=3000)
    vec, n = c.generate("Gen_Scan", "Gen_Scan" if thorough else "Gen_Scan_quick", timeout=3000)
    c.replay("scan", vec, timeout=3000)
    tr, n = c.record("scan", timeout=3000)
    c.validate("Trace_Scan", tr, batch=False, xmx="16g", timeout=3000)
    # composition (System.tla): volumes received chunk by chunk from the real poller, concatenated and scanned
    sysval.run(c, "C01")
    if thorough:
        def corrupt(e):
            if e["out"] == "ok" and len(e["sweeps"]) >= 2:
                e["sweeps"] = e["sweeps"][:-1]
                return True
            return False
        vlib.binding_selftest(c, "Trace_Scan", tr, corrupt, batch=False, label="drop-final-sweep", xmx="16g", timeout=3000)
    c.exhaustive = True
    return c.finish()


def replay(case, c):
    p = c.path("one.ndjson")
    if "out" in case:
        vlib.write_ndjson(p, [case])
        c.validate("Trace_Scan", p, batch=False)
    else:
        v = dict(case.get("expected", {})); v["recs"] = case["recs"]
        vlib.write_ndjson(p, [v])
        c.replay("scan", p)
