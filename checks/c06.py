"""C06 -- Volume, record and chunk handling is total on arbitrary bytes (Container.tla)."""
import vlib


def run(tier):
    c = vlib.Check("C06", tier, level="model_checking")
    c.rule = ("TLC explores the guarded walk on every byte string up to 5 bytes over an adversarial alphabet {00, FF, 80, 'A','R','2','B','Z'}: "
              "always in bounds, always terminates. The driver feeds every string up to 4 bytes (6 thorough) over that alphabet, every length "
              "0..64, stratified random strings, every truncation point of a valid volume and chunk, corrupted size prefixes "
              "(> remainder, i32::MIN, -1) and corrupted bzip2 streams to all 12 container entry points (records, header, scan, Debug, "
              "compressed, decompress, messages, Chunk::new, ...) under catch_unwind and a watchdog; TLC validates each outcome is a value "
              "or an error. Non-trivial: non-empty input; distinct by input bytes.")
    c.assumptions = ["termination of the Rust code is observed (wall-clock watchdog), proved only for the model's walk",
                     "the model's exact prediction (shorter list vs error) is drift-only: the property allows either"]
    vlib.build_harness()
    c.model("MC_Container", "MC_Container", actions=("MNext",), timeout=900)
    tr, n = c.record("totalc", timeout=3000)
    c.validate("Trace_Container", tr, xmx="16g", timeout=3000)
    if tier == "thorough":
        def corrupt(e):
            if "arb" in e:
                e["outcomes"]["file_records"] = "panic"
                return True
            return False
        vlib.binding_selftest(c, "Trace_Container", tr, corrupt, label="inject-panic", xmx="16g", timeout=3000)
    return c.finish()


def replay(case, c):
    p = c.path("one.ndjson")
    vlib.write_ndjson(p, [case])
    c.validate("Trace_Container", p)
