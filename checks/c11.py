"""C11 -- Volume Coverage Pattern message: layout, scaling and bit fields (Vcp.tla, Icd.tla)."""
import vlib


def run(tier):
    c = vlib.Check("C11", tier)
    c.rule = ("TLC checks the count-driven decoder (header then exactly the declared cuts; counts beyond 51 do not fit a frame) and the "
              "accessor tables (bit ranges of a word pairwise disjoint). TLC-computed messages with 0/1/2/51 cuts (distinct field bytes) "
              "and oversize counts are replayed through decode_volume_coverage_pattern and decode_message_contents. Each of the 34 "
              "scaled/bit-field accessors is evaluated by the real code on ALL 65,536 raw values (256 for byte fields) and validated by TLC "
              "with exact integer scaling (angle x4096, rate x4096, threshold x8). Non-trivial: every (accessor, raw) pair.")
    c.assumptions = ["scaled values are dyadic rationals, so f64 x 4096 (x 8) must be an exact integer; a non-integer is reported as a mismatch"]
    vlib.build_harness()
    c.model("MC_Vcp", "MC_Vcp", actions=("ReadHeader", "ReadCut"), timeout=600)
    vec, n = c.generate("Gen_Vcp", "Gen_Vcp", timeout=600)
    c.replay("vcp", vec)
    tr, n = c.record("vcp")
    c.validate("Trace_Vcp", tr, xmx="16g", timeout=1800)
    if tier == "thorough":
        def corrupt(e):
            if e.get("acc") == "azimuth_rate":
                e["vals"][40000] += 45
                return True
            return False
        vlib.binding_selftest(c, "Trace_Vcp", tr, corrupt, label="one-raw-value", xmx="16g", timeout=1800)
    c.exhaustive = True
    return c.finish()


def replay(case, c):
    raise vlib.ToolError("C11 cases are whole-domain accessor tables; re-run bin/vcheck C11 quick")
