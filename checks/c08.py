"""C08 -- ICD date/time fields decode to the exact UTC instant (DateTime.tla)."""
import vlib


def run(tier):
    c = vlib.Check("C08", tier)
    c.rule = ("TLC walks all 65,535 day counts checking the closed-form civil conversion against a day-by-day calendar walk and strict "
              "monotonicity of Instant. The driver calls all seven date-time accessors (decode crate, data crate, model radial) for every "
              "day count x {0, 1, 86,399,999, seeded} ms (rotating in quick, all in thorough) and all 1,440 minutes x sample days, logs "
              "chrono's getters, and TLC checks days = d-1, ms = t, civil date and time of day; out-of-range values only under no-panic. "
              "Non-trivial: in-range cases; distinct by (accessor, d, t).")
    c.assumptions = ["chrono's field getters are trusted to report the value the accessor returned"]
    vlib.build_harness()
    c.model("MC_DateTime", "MC_DateTime", actions=("Next",), workers=1, timeout=900)
    tr, n = c.record("datetime")
    c.validate("Trace_DateTime", tr, xmx="24g", timeout=3000)
    if tier == "thorough":
        def corrupt(e):
            if e["inrange"] and e["acc"] == "volume_header":
                e["days"] += 1
                return True
            return False
        vlib.binding_selftest(c, "Trace_DateTime", tr, corrupt, label="day-off-by-one", xmx="24g", timeout=3000)
    c.exhaustive = True
    return c.finish()


def replay(case, c):
    p = c.path("one.ndjson")
    vlib.write_ndjson(p, [case])
    c.validate("Trace_DateTime", p)
