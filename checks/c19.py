"""C19 -- Chunk-to-elevation mapping and next-chunk time estimates follow the VCP (Estimate.tla)."""
import vlib


def run(tier):
    c = vlib.Check("C19", tier)
    c.rule = ("TLC checks the cumulative walk against the declarative chunk-interval definition for every cut list up to 2 cuts "
              "(8 cut kinds) and the rolling window against the full history for all histories up to 5 samples; it exports every cut "
              "list up to 3 cuts x sequences 0..20 with the expected cut and default estimate, replayed through get_elevation_from_chunk "
              "and estimate_next_chunk_time. Seeded operation sequences (cut lists to 32, sequences to 200, 0..50 samples per key) are "
              "validated statefully by TLC with Window = 10. Non-trivial: at least one cut; distinct by (cuts, sequence).")
    c.assumptions = ["durations are non-negative and attempts >= 1 (as poll_chunks produces them)", "waveform/channel codes within their documented domains, so distinct codes are distinct keys"]
    vlib.build_harness()
    c.model("MC_Estimate", "MC_Estimate", actions=("MNext",), timeout=900)
    vec, n = c.generate("Gen_Estimate", "Gen_Estimate", timeout=900)
    c.replay("estimate", vec)
    tr, n = c.record("estimate")
    c.validate("Trace_Estimate", tr, batch=False, timeout=1800)
    return c.finish()


def replay(case, c):
    p = c.path("one.ndjson")
    vlib.write_ndjson(p, [case])
    if "op" in case:
        c.validate("Trace_Estimate", p, batch=False)
    else:
        c.replay("estimate", p)
