"""C10 -- Message header: layout, type mapping and size semantics (MsgHeader.tla, Icd.tla)."""
import vlib


def run(tier):
    c = vlib.Check("C10", tier)
    c.rule = ("TLC writes all 256 type codes x 6 channel codes as 28-byte headers (distinct field bytes) with the expected type/channel; "
              "each is decoded by decode_message_header and every public field, message_type() and rda_redundant_channel() compared. "
              "All 65,536 size values x (count, number) pairs plus seeded pairs under size = 0xFFFF go through every size accessor "
              "(plain and uom) and are batch-validated by TLC. Non-trivial: every case (each is a distinct header).")
    c.assumptions = ["the 12 leading RPG bytes are private and not observable", "undefined redundant-channel codes are outside the statement (the accessor panics there by design)"]
    vlib.build_harness()
    c.model("MC_MsgHeader", "MC_MsgHeader", actions=("Next",), workers=1, timeout=600)
    vec, n = c.generate("Gen_MsgHeader", "Gen_MsgHeader", timeout=600)
    c.replay("msghdr", vec)
    tr, n = c.record("msghdr")
    c.validate("Trace_MsgHeader", tr, xmx="16g", timeout=1800)
    if tier == "thorough":
        def corrupt(e):
            if e["size"] == 65535:
                e["blo"] = (e["blo"] + 1) % 65536
                return True
            return False
        vlib.binding_selftest(c, "Trace_MsgHeader", tr, corrupt, label="size-low-half", xmx="16g", timeout=1800)
    c.exhaustive = True
    return c.finish()


def replay(case, c):
    p = c.path("one.ndjson")
    vlib.write_ndjson(p, [case])
    if "bytes" in case:
        c.replay("msghdr", p)
    else:
        c.validate("Trace_MsgHeader", p)
