"""Composition sessions (System.tla): poll -> chunk -> container -> framing -> radial -> scan, recorded from
the real code and validated by TLC (Trace_System).  Shared by C18 (delivery / decoded content) and C01
(scan of completely received volumes); each property only takes the verdicts that belong to it."""
import json, vlib


def run(c, owner):
    idx, n = c.record("poll", extra_args=[], out_name="system.idx", timeout=3000) if False else _record(c)
    sessions = vlib.read_ndjson(idx)
    scans = 0
    for s in sessions:
        events = [json.loads(x) for x in open(s["trace"])]
        if owner == "C18":
            events = [e for e in events if e["ev"] != "scan"]
        path = s["trace"] + "." + owner
        vlib.write_ndjson(path, events)
        r = vlib.tlc("Trace_System", "Trace_System", run_dir=c.run_dir, env={"TRACE": path}, coverage=False, workers=1, xss="1g", deque=True, timeout=1800)
        vlib.require_model_ok(r, "Trace_System")
        c.states += r.distinct
        c.transitions += r.generated
        c.traces += 1
        c.evaluations += len(events)
        scans += s.get("volume_scans", 0)
        mism = r.tuples("MISMATCH")
        if not mism:
            if not r.tuples("TRACE-CONSUMED"):
                raise vlib.ToolError("Trace_System gave no verdict on " + path)
            continue
        kind, i = mism[0][1], mism[0][2]
        ev = events[i - 1] if 0 < i <= len(events) else None
        mine = (kind == "SYS/scan") if owner == "C01" else (kind in ("SYS/deliver", "SYS/return", "SYS/stop", "SYS/drop", "SYS/panic", "SYS/runaway"))
        if mine and owner == "C18":
            # System.tla follows Poll.tla's request structure, which C18 does not fix.  The session is judged on the
            # statement alone: delivery schedule by the property reading of Trace_Poll, payloads by Trace_Content.
            import c18
            before = len([m for m in c.mismatches if m.get("kind") == "violation"])
            c18.property_reading(c, events, path + ".proj", {"module": "poll", "mode": "record-system"}, "C18/system/%s" % kind.split("/")[1],
                                 "System.tla cannot explain event %d of a composition session: %s" % (i, json.dumps(ev)[:300]))
            rc = vlib.tlc("Trace_Content", "Trace_Content", run_dir=c.run_dir, env={"TRACE": path}, coverage=False, workers=1, xss="1g", timeout=1800)
            vlib.require_model_ok(rc, "Trace_Content")
            for m in rc.tuples("MISMATCH")[:1]:
                bad = events[m[2] - 1]
                c.mismatches.append({"t": "mismatch", "kind": "violation", "sig": "C18/system/content", "detail": "delivered chunk (%s, %s) does not decode to what was uploaded" % (bad.get("vol"), bad.get("seq")),
                                     "case": {"trace": path, "event_index": m[2], "event": {k: bad[k] for k in bad if k != "decoded"}}})
            continue
        c.mismatches.append({"t": "mismatch", "kind": "violation" if mine else "drift", "sig": "%s/system/%s" % (owner, kind.split("/")[1]),
                             "detail": "System.tla cannot explain event %d of a composition session: %s" % (i, json.dumps(ev)[:300]),
                             "case": {"trace": path, "event_index": i, "event": ev}})
    c.extra["composition_sessions"] = {"sessions": len(sessions), "volume_scans": scans, "deliveries": sum(s["deliveries"] for s in sessions)}
    vlib.log("  [T] Trace_System: %d composition sessions validated (%d deliveries, %d whole-volume scans)" % (len(sessions), sum(s["deliveries"] for s in sessions), scans))


def _record(c):
    tr = c.path("system.idx")
    res = c.path("record-system.ndjson")
    try:
        out, dt = vlib.vdrive(["poll", "record-system", "--out", tr, "--res", res, "--seed", c.seed, "--tier", c.tier], timeout=3000,
                              watchdog=420 if c.tier == "quick" else 1500)
    except vlib.HangError as h:
        # a poller that never returns keeps a composition session alive until the watchdog: a hang like any other
        c.hang("poll", h)
        open(tr, "w").close()
        return tr, 0
    except vlib.ToolError as t:
        c.after_violation("poll", t)
        open(tr, "w").close()
        return tr, 0
    c.absorb(res, "record system", dt, {"module": "poll", "mode": "record-system"})
    return tr, 0
