"""C03 -- Message streams are framed correctly: N messages in, N messages out (Framing.tla)."""
import vlib


def run(tier):
    c = vlib.Check("C03", tier)
    c.rule = ("TLC explores the framing machine (TryHeader/Body) on every stream of up to 3 symbols over {7 fixed type codes, 3 type-31 "
              "shapes} x cut classes (boundary, inside header, header-only, inside body, inside type-31 header/pointers/block, one short) "
              "and checks machine = declarative outcome. Each (stream, cut) is assembled from real frames and run through decode_messages "
              "and Record::messages. Recorded runs cover all 256 type codes alone / before a type-31 / before status+type-31, seeded mixes "
              "up to 300 messages and a truncation sweep; TLC re-runs the machine on each. Non-trivial: non-empty stream; distinct by (stream, cut).")
    c.assumptions = ["type-31 messages in C03 streams are contiguous with ascending pointers (permuted pointers belong to C02)",
                     "message equality is by field projection (floats as bit patterns), not PartialEq"]
    vlib.build_harness()
    c.model("MC_Framing", "MC_Framing", actions=("TryHeader", "Body"), timeout=1800)
    vec, n = c.generate("Gen_Framing", "Gen_Framing", timeout=1800)
    c.replay("frames", vec)
    tr, n = c.record("frames")
    c.validate("Trace_Framing", tr, batch=False, timeout=3000)
    if tier == "thorough":
        def corrupt(e):
            if e["out"] == "ok" and e["n"] >= 2:
                e["n"] -= 1
                e["tags"] = e["tags"][:-1]
                return True
            return False
        vlib.binding_selftest(c, "Trace_Framing", tr, corrupt, batch=False, label="drop-last-message", timeout=3000)
    c.exhaustive = True
    return c.finish()


def replay(case, c):
    p = c.path("one.ndjson")
    if "out" in case:
        vlib.write_ndjson(p, [case])
        c.validate("Trace_Framing", p, batch=False)
    else:
        case = dict(case)
        exp = case.pop("expected", {})
        case["status"], case["n"] = exp.get("status"), exp.get("n")
        vlib.write_ndjson(p, [case])
        c.replay("frames", p)
