"""C18 -- Real-time polling delivers chunks in order, without gaps or duplicates (Poll.tla)."""
import json, os, vlib, sysval


def project(events):
    keep = []
    for e in events:
        if e["ev"] in ("init", "upload", "deliver", "stop", "drop", "return", "req", "runaway", "panic"):   # runaway / panic: no reading explains them
            keep.append(e)
        elif e["ev"] in ("list", "get"):
            keep.append({"ev": "req", "fault": bool(e.get("fault", False))})
    return keep


def tlc_trace(c, cfg, trace):
    r = vlib.tlc("Trace_Poll", cfg, run_dir=c.run_dir, env={"TRACE": trace}, coverage=False, workers=1, xss="1g", deque=True, timeout=1800)
    vlib.require_model_ok(r, cfg)
    c.states += r.distinct
    c.transitions += r.generated
    mism = r.tuples("MISMATCH")
    if not mism and not r.tuples("TRACE-CONSUMED"):
        raise vlib.ToolError("%s gave no verdict on %s" % (cfg, trace))
    return mism


def property_reading(c, events, proj, how, drift_sig, drift_detail):
    """The two weaker readings of a recording: `projected` (requests inferred by TLC, budgets 5/10 as in
    the code) and `property` (budget free from the third failed attempt on -- exactly what C18 states).
    Rejection by the weaker readings only is drift; rejection by the property reading is the verdict."""
    vlib.write_ndjson(proj, project(events))
    pe = [json.loads(x) for x in open(proj)]
    m2 = tlc_trace(c, "Trace_Poll_projected", proj)
    c.mismatches.append({"t": "mismatch", "kind": "drift", "sig": drift_sig, "detail": drift_detail, "case": None})
    if not m2:
        return
    m3 = tlc_trace(c, "Trace_Poll_property", proj)
    if not m3:
        c.mismatches.append({"t": "mismatch", "kind": "drift", "sig": "C18/shape_open_in_the_statement", "case": None,
                             "detail": "explained only by the property reading (a retry budget other than 5/10, or another chunk of the next volume) at event %d %s" % (m2[0][2], pe[m2[0][2] - 1])})
        return
    sig, idx = m3[0][1], m3[0][2]
    ev = pe[idx - 1] if 0 < idx <= len(pe) else None
    window = [e for e in pe[max(0, idx - 8):idx]]
    c.mismatches.append({"t": "mismatch", "kind": "violation", "sig": sig, "detail": "Poll.tla cannot explain event %d %s under any reading" % (idx, ev),
                         "case": {"trace": proj, "event_index": idx, "event": ev, "preceding": window}, "how": how})


def validate_session(c, trace, how):
    """Full-log validation first; a rejection there may be implementation-shaped (drift), so the
    session is re-validated on its property-level projection under the weaker readings."""
    if trace.endswith(".proj"):
        events = [json.loads(x) for x in open(trace)]
        return property_reading(c, events, trace, how, "C18/replayed_projection", "replay of a projected recording")
    mism = tlc_trace(c, "Trace_Poll", trace)
    if not mism:
        return
    sig, idx = mism[0][1], mism[0][2]
    events = [json.loads(x) for x in open(trace)]
    ev = events[idx - 1] if 0 < idx <= len(events) else None
    property_reading(c, events, trace + ".proj", how, sig if sig.startswith("C18/request/") else "C18/full_log/" + sig[4:],
                     "full log differs from Poll.tla at event %d: %s" % (idx, ev))


def run(tier):
    c = vlib.Check("C18", tier)
    thorough = tier == "thorough"
    c.rule = ("TLC explores every interleaving of uploader / poller (one action per await) / consumer stop+drop / transient faults for "
              "3 directories x 3 chunks, budgets 2/2, 1 fault, 5 uploads (larger in thorough): first delivery is the newest chunk at some "
              "moment in [search, list], strictly advancing series, at most one delivery after stop, Ok only after stop, Err only on budget / "
              "consumer / start-up, cursor only after a successful send, termination. The REAL poll_chunks runs against the loop-back "
              "simulator at the production constants (999 x 55, budgets 5/10) on seeded sessions crossing 999 -> 1 with uploads, faults, stop "
              "and drop scripted at request boundaries; each merged event log is validated statefully against Poll.tla. In the other direction "
              "TLC's simulator generates terminated behaviours of Poll.tla at the production constants in the boundary windows (start volume "
              "997/998/999/1, sequence 1/2/54/55); each is turned into simulator behaviour keyed on request counts and the real poller must "
              "deliver exactly those chunks and return Ok/Err as specified. "
              "Non-trivial: at least two deliveries; distinct by session.")
    c.assumptions = ["uploads are frozen during the initial volume search; directories ahead of the newest are empty (EnvAheadIsEmpty)",
                     "consumer stop/drop happen at request boundaries in recorded sessions (all positions in the model)",
                     "virtual time: tokio's paused clock; three sessions in four have upload times in the past (the poller never sleeps until an estimate), one in four is stamped a day and a half ahead of this machine's clock (it sleeps, in virtual time, before every request)"]
    vlib.build_harness()
    c.model("MC_Poll", "MC_Poll_thorough" if thorough else "MC_Poll",
            actions=("Upload", "CStop", "CDrop", "PSearch", "PListLatest", "PGetLatest", "PDeliverLatest", "PGetMeta", "PLoopTop", "PNext", "PListNext", "PGet", "PDeliver"), timeout=3000)
    # direction G: behaviours of Poll.tla at the production constants (boundary windows), generated by TLC's
    # simulator with a history variable (the script), replayed into the real poller
    g = vlib.tlc("Gen_Poll", "Gen_Poll", run_dir=c.run_dir, simulate=2500 if thorough else 300, depth=160, seed=c.seed, workers=1, coverage=False, timeout=3000)
    vlib.require_model_ok(g, "Gen_Poll")
    if len(g.replays) < 100:
        raise vlib.ToolError("Gen_Poll produced only %d terminated behaviours" % len(g.replays))
    scripts = c.path("scripts.ndjson")
    vlib.write_ndjson(scripts, g.replays)
    vlib.log("  [G] Gen_Poll: %d terminated behaviours (scripts) from TLC's simulator" % len(g.replays))
    c.replay("poll", scripts, timeout=3000)
    # a scripted session that disagrees with its script is judged on what was observed (property reading), not on the script
    pend = [m for m in c.mismatches if m.get("kind") == "pending"]
    c.mismatches = [m for m in c.mismatches if m.get("kind") != "pending"]
    for m in pend[:12]:
        before = len([x for x in c.mismatches if x.get("kind") == "violation"])
        tr = m["case"]["trace"]
        events = [json.loads(x) for x in open(tr)]
        property_reading(c, events, tr, {"module": "poll", "mode": "script", "script": m["case"]}, m["sig"] + "/script_shape", m["detail"])
        for x in c.mismatches[::-1]:
            if x.get("kind") == "violation" and len([y for y in c.mismatches if y.get("kind") == "violation"]) > before and "script" not in x["case"]:
                x["case"]["script"] = m["case"]
                x["detail"] += "; " + m["detail"]
                break
    if len(pend) > 12:
        c.mismatches.append({"t": "mismatch", "kind": "drift", "sig": "C18/script/many_disagreements", "detail": "%d scripted sessions disagree with Poll.tla's request structure; 12 judged" % len(pend), "case": None})
    idx, n = c.record("poll", out_name="sessions.idx", timeout=3000)
    sessions = vlib.read_ndjson(idx)
    for s in sessions:
        validate_session(c, s["trace"], {"module": "poll", "mode": "record"})
        c.traces += 1
        c.evaluations += s["events"]
    vlib.log("  [T] Trace_Poll: %d sessions validated (%d deliveries)" % (len(sessions), sum(s["deliveries"] for s in sessions)))
    # growth (PollStats.tla): the statistics channel of the sessions that had one; informational (drift), never a C18 verdict
    nstat = 0
    for s in [x for x in sessions if x.get("with_stats")]:
        r = vlib.tlc("Trace_PollStats", "Trace_PollStats", run_dir=c.run_dir, env={"TRACE": s["trace"]}, coverage=False, workers=1, xss="1g", deque=True, timeout=1200)
        c.states += r.distinct
        c.transitions += r.generated
        nstat += 1
        for m in r.tuples("MISMATCH"):
            c.mismatches.append({"t": "mismatch", "kind": "drift", "sig": m[1], "detail": "PollStats.tla cannot explain event %s of %s" % (m[2], s["trace"]), "case": None})
    c.extra["statistics_channel_sessions"] = nstat
    # composition (System.tla): chunks carry real records/messages, the consumer decodes every delivered chunk
    sysval.run(c, "C18")
    if thorough:
        # hazards outside the listed properties (DESIGN 12.7): TLC counterexamples + reproduction on the real poller; informational
        haz = {}
        for mod, inv in (("PollStale", "NoStaleDelivered"), ("PollShort", "WaitsOnlyForTheUploader")):
            r = vlib.tlc(mod, mod, run_dir=c.run_dir, workers=2, coverage=False, timeout=900)
            haz[mod] = {"tlc_counterexample_to": inv, "found": r.violated == inv, "states": r.distinct}
        ctl = vlib.tlc("PollShort", "PollShort_control", run_dir=c.run_dir, workers=2, coverage=False, timeout=900)
        haz["PollShort"]["control_with_full_length_volumes_holds"] = ctl.ok
        hz, _ = c.record("poll", extra_args=[], out_name="hazards.ndjson") if False else (None, 0)
        out, dt = vlib.vdrive(["poll", "record-hazards", "--out", c.path("hazards.ndjson"), "--res", c.path("hazards.res"), "--seed", c.seed, "--tier", c.tier], timeout=1800)
        for e in vlib.read_ndjson(c.path("hazards.ndjson")):
            haz.setdefault(e["spec"].replace(".tla", ""), {})["reproduced_on_real_code"] = e["reproduced_on_real_code"]
            haz[e["spec"].replace(".tla", "")]["observed_deliveries"] = e["deliveries"][:6]
        c.extra["hazards_outside_the_listed_properties"] = haz
        vlib.log("  [H] hazards (informational): %s" % json.dumps({k: (v.get("found"), v.get("reproduced_on_real_code")) for k, v in haz.items()}))
        # the projected validation must accept what the full validation accepts (it is the weaker reading)
        for s in sessions[:10]:
            proj = s["trace"] + ".proj"
            vlib.write_ndjson(proj, project([json.loads(x) for x in open(s["trace"])]))
            r = vlib.tlc("Trace_Poll", "Trace_Poll_projected", run_dir=c.run_dir, env={"TRACE": proj}, coverage=False, workers=1, xss="1g", deque=True, timeout=1800)
            if r.tuples("MISMATCH") and not any(m["kind"] == "violation" for m in c.mismatches):
                raise vlib.ToolError("projected validation rejects a session the full validation accepts: %s %s" % (proj, r.tuples("MISMATCH")))
            c.states += r.distinct
            c.transitions += r.generated
        # binding self-test: drop one delivery from a recorded session -> must be rejected
        src = [s for s in sessions if s["deliveries"] >= 3][0]["trace"]
        events = [json.loads(x) for x in open(src)]
        k = [i for i, e in enumerate(events) if e["ev"] == "deliver"][1]
        bad = c.path("corrupted-session.ndjson")
        vlib.write_ndjson(bad, events[:k] + events[k + 1:])
        r = vlib.tlc("Trace_Poll", "Trace_Poll", run_dir=c.run_dir, env={"TRACE": bad}, coverage=False, workers=1, xss="1g", deque=True, timeout=1200)
        if not r.tuples("MISMATCH"):
            raise vlib.ToolError("binding self-test FAILED: a session with a delivery removed was accepted")
        c.extra["binding_selftest"] = [{"trace_spec": "Trace_Poll", "label": "remove-one-delivery", "rejected_with": r.tuples("MISMATCH")[0][1]}]
    return c.finish()


def replay(case, c):
    validate_session(c, case["trace"], None)
