"""C18 -- Real-time polling delivers chunks in order, without gaps or duplicates (Poll.tla)."""
import json, os, vlib


def project(events):
    keep = []
    for e in events:
        if e["ev"] in ("init", "upload", "deliver", "stop", "drop", "return"):
            keep.append(e)
        elif e["ev"] in ("list", "get"):
            keep.append({"ev": "req", "fault": bool(e.get("fault", False))})
    return keep


def validate_session(c, trace, how):
    """Full-log validation first; a rejection at a REQUEST event is implementation-shaped (drift) and
    the session is re-validated on its property-level projection with the requests inferred by TLC."""
    n = sum(1 for _ in open(trace))
    r = vlib.tlc("Trace_Poll", "Trace_Poll", run_dir=c.run_dir, env={"TRACE": trace}, coverage=False, workers=1, xss="1g", deque=True, timeout=1200)
    vlib.require_model_ok(r, "Trace_Poll")
    c.states += r.distinct
    c.transitions += r.generated
    mism = r.tuples("MISMATCH")
    if not mism:
        if not r.tuples("TRACE-CONSUMED"):
            raise vlib.ToolError("Trace_Poll gave no verdict on " + trace)
        return
    sig, idx = mism[0][1], mism[0][2]
    events = [json.loads(x) for x in open(trace)]
    ev = events[idx - 1] if 0 < idx <= len(events) else None
    if sig.startswith("C18/request/"):
        c.mismatches.append({"t": "mismatch", "kind": "drift", "sig": sig, "detail": "request log differs from Poll.tla at event %d: %s" % (idx, ev), "case": None})
        proj = trace + ".proj"
        vlib.write_ndjson(proj, project(events))
        r2 = vlib.tlc("Trace_Poll", "Trace_Poll_projected", run_dir=c.run_dir, env={"TRACE": proj}, coverage=False, workers=1, xss="1g", deque=True, timeout=1800)
        vlib.require_model_ok(r2, "Trace_Poll_projected")
        c.states += r2.distinct
        c.transitions += r2.generated
        m2 = r2.tuples("MISMATCH")
        if not m2:
            return
        pe = [json.loads(x) for x in open(proj)]
        sig, idx, ev, trace = m2[0][1], m2[0][2], pe[m2[0][2] - 1], proj
    window = [json.loads(x) for x in open(trace)][max(0, idx - 8):idx]
    window = [e for e in window if e.get("ev") != "probe"]
    c.mismatches.append({"t": "mismatch", "kind": "violation", "sig": sig, "detail": "Poll.tla cannot explain event %d %s" % (idx, ev),
                         "case": {"trace": trace, "event_index": idx, "event": ev, "preceding": window}, "how": how})


def run(tier):
    c = vlib.Check("C18", tier)
    thorough = tier == "thorough"
    c.rule = ("TLC explores every interleaving of uploader / poller (one action per await) / consumer stop+drop / transient faults for "
              "3 directories x 3 chunks, budgets 2/2, 1 fault, 5 uploads (larger in thorough): first delivery is the newest chunk at some "
              "moment in [search, list], strictly advancing series, at most one delivery after stop, Ok only after stop, Err only on budget / "
              "consumer / start-up, cursor only after a successful send, termination. The REAL poll_chunks runs against the loop-back "
              "simulator at the production constants (999 x 55, budgets 5/10) on seeded sessions crossing 999 -> 1 with uploads, faults, stop "
              "and drop scripted at request boundaries; each merged event log is validated statefully against Poll.tla. "
              "Non-trivial: at least two deliveries; distinct by session.")
    c.assumptions = ["uploads are frozen during the initial volume search; directories ahead of the newest are empty (EnvAheadIsEmpty)",
                     "consumer stop/drop happen at request boundaries in recorded sessions (all positions in the model)",
                     "virtual time: tokio paused clock, upload times in the past so the wall-clock sleep_until branch is not taken"]
    vlib.build_harness()
    c.model("MC_Poll", "MC_Poll_thorough" if thorough else "MC_Poll",
            actions=("Upload", "CStop", "CDrop", "PSearch", "PListLatest", "PGetLatest", "PDeliverLatest", "PGetMeta", "PLoopTop", "PNext", "PListNext", "PGet", "PDeliver"), timeout=3000)
    idx, n = c.record("poll", out_name="sessions.idx", timeout=3000)
    sessions = vlib.read_ndjson(idx)
    for s in sessions:
        validate_session(c, s["trace"], {"module": "poll", "mode": "record"})
        c.traces += 1
        c.evaluations += s["events"]
    vlib.log("  [T] Trace_Poll: %d sessions validated (%d deliveries)" % (len(sessions), sum(s["deliveries"] for s in sessions)))
    if thorough:
        # the projected validation must accept what the full validation accepts (it is the weaker reading)
        for s in sessions[:10]:
            proj = s["trace"] + ".proj"
            vlib.write_ndjson(proj, project([json.loads(x) for x in open(s["trace"])]))
            r = vlib.tlc("Trace_Poll", "Trace_Poll_projected", run_dir=c.run_dir, env={"TRACE": proj}, coverage=False, workers=1, xss="1g", deque=True, timeout=1800)
            if r.tuples("MISMATCH") and not any(m["kind"] == "violation" for m in c.mismatches):
                raise vlib.ToolError("projected validation rejects a session the full validation accepts: %s %s" % (proj, r.tuples("MISMATCH")))
            c.states += r.distinct
            c.transitions += r.generated
        # binding self-test: drop one delivery from a recorded session -> must be rejected
        src = [s for s in sessions if s["deliveries"] >= 3][0]["trace"]
        events = [json.loads(x) for x in open(src)]
        k = [i for i, e in enumerate(events) if e["ev"] == "deliver"][1]
        bad = c.path("corrupted-session.ndjson")
        vlib.write_ndjson(bad, events[:k] + events[k + 1:])
        r = vlib.tlc("Trace_Poll", "Trace_Poll", run_dir=c.run_dir, env={"TRACE": bad}, coverage=False, workers=1, xss="1g", deque=True, timeout=1200)
        if not r.tuples("MISMATCH"):
            raise vlib.ToolError("binding self-test FAILED: a session with a delivery removed was accepted")
        c.extra["binding_selftest"] = [{"trace_spec": "Trace_Poll", "label": "remove-one-delivery", "rejected_with": r.tuples("MISMATCH")[0][1]}]
    return c.finish()


def replay(case, c):
    validate_session(c, case["trace"], None)
