"""C16 -- Chunk and archive identifiers: parsing and successor arithmetic (ChunkId.tla)."""
import json, vlib


def run(tier):
    c = vlib.Check("C16", tier)
    c.rule = ("TLC walks the successor relation on all 999 x 55 positions (54,945 states, one cycle, injective). The driver walks "
              "the same cycle with the real next_chunk(), parses all 999 x 55 names back, and runs the sequence/type/archive parsers on "
              "valid, nearly-valid and arbitrary Unicode strings; every event is validated by TLC against ChunkId.tla's grammar operators. "
              "Non-trivial: non-empty name / any position; distinct by input text or position.")
    c.assumptions = ["chrono's leniency on signs/blanks inside the date fields is treated as unspecified, not as a violation"]
    vlib.build_harness()
    c.model("MC_ChunkId", "MC_ChunkId", actions=("Succ",), workers=1, timeout=900)
    c.model("MC_DateTime", "MC_DateTime", actions=("Next",), workers=1, timeout=900)
    tr, n = c.record("chunkid")
    c.validate("Trace_ChunkId", tr, timeout=1800)
    if tier == "thorough":
        binding_selftest(c, tr)
    c.exhaustive = True
    return c.finish()


def binding_selftest(c, tr):
    """Corrupt one recorded field per event kind; the validation must reject each (DESIGN 4.4)."""
    lines = open(tr).read().splitlines()
    done = {}
    out = []
    for ln in lines:
        e = json.loads(ln)
        k = e["ev"]
        if k not in done:
            if k == "succ":
                e["nseq"] += 1
            elif k == "name":
                e["pseq"] += 1
            elif k == "str":
                e["type"] = (e["type"] + 1) % 4
            elif k == "arch":
                e["site"] = [88]
            done[k] = True
        out.append(json.dumps(e))
    p = c.path("corrupted.ndjson")
    open(p, "w").write("\n".join(out) + "\n")
    r = vlib.tlc("Trace_ChunkId", "Trace_ChunkId", run_dir=c.run_dir, env={"TRACE": p}, workers=1, coverage=False, xss="1g")
    sigs = {m[1] for m in r.tuples("MISMATCH")}
    need = {"C16/next_chunk/successor", "C16/name/parse", "C16/chunk_type/grammar", "C16/archive/site"}
    if not need <= sigs:
        raise vlib.ToolError("binding self-test failed: corrupted trace accepted (%s)" % sorted(need - sigs))
    c.extra["binding_selftest"] = {"corrupted_fields": 4, "rejected": sorted(need)}


def replay(case, c):
    p = c.path("one.ndjson")
    vlib.write_ndjson(p, [case])
    c.validate("Trace_ChunkId", p)
