"""C17 -- S3 listing and download return exactly what the bucket holds (S3.tla)."""
import vlib


def run(tier):
    c = vlib.Check("C17", tier)
    c.rule = ("TLC checks the listing-response parser machine (one object per Contents for six child orders, unknown elements, keys split "
              "into several character runs, sizes to 2^64-1, unparsable size = error) and ListObjectsV2 semantics (filter, key order, "
              "truncation) on all buckets over five keys. TLC-generated buckets with XML-special/non-ASCII keys x requests are served by the "
              "loop-back simulator to archive::list_files and realtime::list_chunks_in_volume; identifiers, order, timestamps, the error for "
              "truncated archive listings and the REQUEST RECEIVED (bucket, prefix, max-keys) are compared. Recorded listings (0..1001 objects, "
              "colliding prefixes, unparsable Size, garbled body) and downloads (200/404/403/500/503, 0 B..4 MiB) are validated by TLC. "
              "Non-trivial: non-empty bucket / status 200; distinct by scenario.")
    c.assumptions = ["loop-back HTTP only: TLS, DNS and the real AWS endpoints are outside the binding; the simulator's XML writer is trusted",
                     "archive identifiers carry no timestamp, so LastModified is checked for real-time listings and downloads",
                     "HTTP faults on a listing are not constrained by the statement (ListFaultReadAsEmpty is a named deviation)"]
    vlib.build_harness()
    c.model("MC_S3", "MC_S3", actions=("MNext",), timeout=900)
    vec, n = c.generate("Gen_S3", "Gen_S3", timeout=900)
    c.replay("s3", vec)
    tr, n = c.record("s3")
    c.validate("Trace_S3", tr, xmx="16g", timeout=1800)
    if tier == "thorough":
        def corrupt(e):
            if e["op"] == "list" and len(e["ids"]) >= 2 and not e["err"]:
                e["ids"][0], e["ids"][1] = e["ids"][1], e["ids"][0]
                return True
            return False
        vlib.binding_selftest(c, "Trace_S3", tr, corrupt, label="swap-two-identifiers", xmx="16g", timeout=1800)
    c.exhaustive = True
    return c.finish()


def replay(case, c):
    raise vlib.ToolError("re-run bin/vcheck C17 quick (scenarios are regenerated)")
