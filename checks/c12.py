"""C12 -- RDA status message: layout, coded fields, flags and alarm table (RdaStatus.tla, Icd.tla)."""
import vlib


def run(tier):
    c = vlib.Check("C12", tier)
    c.rule = ("TLC writes 40 messages of 60 halfwords with distinct bytes per field; every public field must come from its ICD position. "
              "Each of the 13 coded accessors is run on codes 0..255 and must return the documented meaning on every documented code; "
              "each of the 24 flag/scaled/whole-word accessors is run on ALL 65,536 raw values and validated by TLC (flags depend on exactly "
              "their bit; raw/100; build-number rule; VCP sign rule; clutter segments = bits 1..5); the alarm lookup is checked on all "
              "65,536 codes and alarm_messages() on seeded alarm arrays. Non-trivial: every (accessor, value) pair.")
    c.assumptions = ["oracle = the ICD tables as transcribed in RdaStatus.tla, cross-read against the field documentation values in rda_status_data/message.rs",
                     "undocumented codes are outside the property (several accessors panic there by design)", "debug assertions are off (release behaviour of avset_enabled)"]
    vlib.build_harness()
    c.model("MC_Rda", "MC_Rda", actions=("Next",), workers=4, timeout=900)
    vec, n = c.generate("Gen_Rda", "Gen_Rda", timeout=600)
    c.replay("rda", vec)
    tr, n = c.record("rda")
    c.validate("Trace_Rda", tr, xmx="16g", timeout=1800)
    if tier == "thorough":
        def corrupt(e):
            if e.get("acc") == "sdf_ebc_enabled":
                e["vals"][8] = 0
                return True
            return False
        vlib.binding_selftest(c, "Trace_Rda", tr, corrupt, label="one-flag-value", xmx="16g", timeout=1800)
    c.exhaustive = True
    return c.finish()


def replay(case, c):
    raise vlib.ToolError("C12 cases are whole-domain accessor tables; re-run bin/vcheck C12 quick")
