"""C15 -- Latest-volume discovery finds the newest of all 999 volume directories (Search.tla)."""
import vlib


def run(tier):
    c = vlib.Check("C15", tier)
    thorough = tier == "thorough"
    c.rule = ("Bucket shapes (N, newest index, populated count). TLC explores the probe-per-action search on every shape for "
              "N=1..24 (64 thorough) and, at N=999, on 63 newest positions x all counts (all 999,000 shapes = 19.7 M states in thorough), and "
              "exports result/call count/probe sequence per shape for N<=24; each is replayed through the real "
              "rotated search (guarded wrapper). All 999,000 shapes at N=999 are run through the real search and batch-validated by "
              "TLC; the real get_latest_volume runs against the loop-back S3 simulator on boundary and seeded shapes. "
              "Non-trivial: 0 < populated count < N; distinct by shape.")
    c.assumptions = ["populated directories form one contiguous run in rotation order followed by empty ones (the statement's precondition)",
                     "distinct upload times, so the upload rank is the only observable of a comparison-based search"]
    vlib.build_harness()
    sfx = "_thorough" if thorough else ""
    c.model("MC_Search", "MC_Search" + sfx, actions=("ProbeFirst", "BisectWith", "Rebase", "BinWith"), timeout=1800)
    # the search machine at the production size: a slice of newest positions (quick) / all 999,000 shapes (thorough)
    c.model("MC_Search999", "MC_Search999_all" if thorough else "MC_Search999", coverage=False, workers=8, xmx="40g" if thorough else "12g", timeout=3000)
    r = vlib.tlc("Gen_Search", "Gen_Search" + sfx, run_dir=c.run_dir, coverage=False, workers=1, timeout=1800)
    vlib.require_model_ok(r)
    c.states += r.distinct
    c.transitions += r.generated
    vec = c.path("vectors.ndjson")
    vlib.write_ndjson(vec, r.replays)
    vlib.log("  [G] Gen_Search: %d shapes with expected result/calls/probes from TLC" % len(r.replays))
    c.replay("search", vec)
    tr, n = c.record("search")
    c.validate("Trace_Search", tr, xmx="16g", timeout=1800)
    lv, n2 = c.record("latest", out_name="trace-latest.ndjson")
    c.validate("Trace_Search", lv, timeout=600)
    c.exhaustive = True
    return c.finish()


def replay(case, c):
    vec = c.path("one.ndjson")
    if "probes" in case:
        vlib.write_ndjson(vec, [case])
        c.replay("search", vec)
    else:
        c.validate("Trace_Search", _one(c, case))


def _one(c, case):
    p = c.path("one-trace.ndjson")
    vlib.write_ndjson(p, [case])
    return p
