"""C04 -- Message decoding is total: arbitrary bytes give a value or an error (MC_Total over Drd.tla)."""
import vlib


def run(tier):
    c = vlib.Check("C04", tier)
    thorough = tier == "thorough"
    c.rule = ("TLC spells out the malformed-input class space for type-31 (count / pointer / name / gates / word-size / truncation faults on two "
              "base messages; pairs in thorough) and checks on the decoder machine: outcome is ok or err (never panic), termination, reader "
              "position in range, allocation within a constant-plus-linear bound. Every class vector, field-directed extremes for the VCP and "
              "clutter-map decoders, every prefix (stride 11 in quick) of a valid stream, seeded mutations and random bytes go through all 16 "
              "decode entry points (incl. radial conversion of whatever decoded) under catch_unwind with a counting global allocator; TLC "
              "validates outcome and peak memory per call. Non-trivial: non-empty input; distinct by (class, bytes).")
    c.assumptions = ["non-termination and memory of the Rust code are observed on the explored executions, proved only for the model",
                     "ok vs err on a malformed input is not constrained (drift only)", "random fuzzing at scale is not what this family is for; the weight is on the class space"]
    vlib.build_harness()
    r = vlib.tlc("MC_Total", "MC_Total_thorough" if thorough else "MC_Total", run_dir=c.run_dir, workers=1, xss="1g", timeout=3000)
    vlib.require_model_ok(r)
    vlib.require_coverage(r, ("AStep",))
    c.states += r.distinct
    c.transitions += r.generated
    vec = c.path("classes.ndjson")
    vlib.write_ndjson(vec, r.replays)
    vlib.log("  [M] MC_Total: %d states, %d fault-class vectors exported" % (r.distinct, len(r.replays)))
    tr, n = c.record("total", extra_args=["--in", vec], timeout=3000)
    c.validate("Trace_Total", tr, xmx="16g", timeout=3000)
    if thorough:
        def corrupt(e):
            if e["outcome"] == "err":
                e["outcome"] = "panic"
                return True
            return False
        vlib.binding_selftest(c, "Trace_Total", tr, corrupt, label="inject-panic", xmx="16g", timeout=3000)
    # growth (Coded.tla): census of the coded accessors as partial functions.  C04 quantifies over the decoding entry points and the
    # radial conversion, not over accessors or Debug, so this is recorded as a hazard outside the listed properties, never a verdict.
    m = vlib.tlc("Coded", "Coded", run_dir=c.run_dir, workers=1, coverage=False, timeout=600)
    out, dt = vlib.vdrive(["coded", "record", "--out", c.path("coded.ndjson"), "--res", c.path("coded.res"), "--seed", c.seed, "--tier", c.tier], timeout=1800)
    v = vlib.tlc("Trace_Coded", "Trace_Coded", run_dir=c.run_dir, env={"TRACE": c.path("coded.ndjson")}, workers=1, coverage=False, timeout=600)
    for d in v.tuples("DRIFT"):
        c.mismatches.append({"t": "mismatch", "kind": "drift", "sig": d[1], "detail": "accessor census differs from Coded.tla at line %s" % d[2], "case": None})
    lines = vlib.read_ndjson(c.path("coded.ndjson"))
    census = [e for e in lines if "panics" in e]
    c.extra["coded_accessor_meanings_and_scalings_checked"] = sorted(e["acc"] for e in lines if "panics" not in e)
    c.extra["hazards_outside_the_listed_properties"] = {"Coded": {
        "tlc_counterexample_to": "AccessorTotal", "found": m.violated == "AccessorTotal",
        "reproduced_on_real_code": bool(census) and all(e["panics"] > 0 for e in census) and not v.tuples("DRIFT"),
        "accessors_that_panic_outside_their_documented_codes": {e["acc"]: {"returns_for": e["returns_for"], "first_panic": e["first_panic"], "debug_of_the_decoded_value_panics_too": e["debug_panics_at"] >= 0} for e in census}}}
    vlib.log("  [H] hazards (informational): %d coded accessors panic outside their documented codes; census matches Coded.tla: %s" % (len(census), not v.tuples("DRIFT")))
    return c.finish()


def replay(case, c):
    p = c.path("one.ndjson")
    vlib.write_ndjson(p, [case])
    c.validate("Trace_Total", p)
