"""C09 -- Sweep grouping and merging conserve radials (Sweep.tla)."""
import vlib


def run(tier):
    c = vlib.Check("C09", tier)
    thorough = tier == "thorough"
    c.rule = ("TLC enumerates every radial sequence up to length 6 over 3 elevation numbers (8 over 4 in thorough) and every "
              "sweep pair up to 3+3 radials over 3 azimuth numbers; all are replayed through Sweep::from_radials / Sweep::merge. "
              "Seeded recordings (lengths 0..2000, elevation numbers 0..255, merges up to 720+720 radials) are validated by TLC. "
              "Non-trivial: at least one radial (from_radials) / two radials (merge); distinct by abstract input.")
    c.assumptions = ["radials are abstracted to (elevation number, azimuth number, unique tag carried in the timestamp)"]
    vlib.build_harness()
    c.model("MC_Sweep", "MC_Sweep_thorough" if thorough else "MC_Sweep", actions=("Push", "Flush"), timeout=1200)
    vec, n = c.generate("Gen_Sweep", "Gen_Sweep_thorough" if thorough else "Gen_Sweep", timeout=1200)
    c.replay("sweep", vec)
    tr, n = c.record("sweep")
    c.validate("Trace_Sweep", tr, batch=False, timeout=1800)
    c.exhaustive = True
    return c.finish()


def replay(case, c):
    vec = c.path("one.ndjson")
    vlib.write_ndjson(vec, [case])
    c.replay("sweep", vec)
