//! C13: clutter filter map against Cfm.tla.
use crate::common::*;
use crate::drd::bytes_of;
use nexrad_decode::messages::clutter_filter_map::{decode_clutter_filter_map, Message};
use serde_json::{json, Value};

type Map = Vec<Vec<Vec<(u16, u16)>>>;

pub fn encode(date: u16, minutes: u16, declared_segments: u16, map: &Map) -> Vec<u8> {
    let mut b = Vec::new();
    b.extend_from_slice(&date.to_be_bytes());
    b.extend_from_slice(&minutes.to_be_bytes());
    b.extend_from_slice(&declared_segments.to_be_bytes());
    for seg in map { for az in seg { b.extend_from_slice(&(az.len() as u16).to_be_bytes()); for (op, end) in az { b.extend_from_slice(&op.to_be_bytes()); b.extend_from_slice(&end.to_be_bytes()); } } }
    b
}

fn map_of(m: &Message) -> Map { m.elevation_segments.iter().map(|s| s.azimuth_segments.iter().map(|a| a.range_zones.iter().map(|z| (z.op_code, z.end_range)).collect()).collect()).collect() }
fn map_json(m: &Map) -> Value { json!(m.iter().map(|s| s.iter().map(|a| a.iter().map(|(o, e)| json!([o, e])).collect::<Vec<_>>()).collect::<Vec<_>>()).collect::<Vec<_>>()) }
fn numbering(m: &Message) -> (Vec<u64>, bool) {
    (m.elevation_segments.iter().map(|s| s.elevation_segment_number as u64).collect(),
     m.elevation_segments.iter().all(|s| s.azimuth_segments.len() == 360 && s.azimuth_segments.iter().enumerate().all(|(k, a)| a.azimuth_segment as usize == k && a.header.range_zone_count as usize == a.range_zones.len())))
}

fn decode(bytes: &[u8]) -> (&'static str, Option<Message>, String) {
    match guarded(|| if dribbled(bytes) { decode_clutter_filter_map(&mut Dribble::new(bytes)) } else { decode_clutter_filter_map(&mut &bytes[..]) }) { Ok(Ok(m)) => ("ok", Some(m), String::new()), Ok(Err(e)) => ("err", None, format!("{e:?}")), Err(p) => ("panic", None, p) }
}

fn random_map(rng: &mut Rng, nseg: usize, max_zones: u64, big_zone: bool) -> Map {
    let mut m: Map = (0..nseg).map(|_| (0..360).map(|_| { let n = rng.below(max_zones + 1); (0..n).map(|_| (rng.below(3) as u16, rng.next() as u16)).collect() }).collect()).collect();
    if big_zone && nseg > 0 { let s = rng.below(nseg as u64) as usize; let a = rng.below(360) as usize; let n = *rng.pick(&[255u64, 256, 300, 1000, 65535]); m[s][a] = (0..n).map(|k| ((k % 3) as u16, k as u16)).collect(); }
    m
}

pub fn run(args: &Args) {
    match args.mode.as_str() {
        "replay" => {
            let vectors = read_ndjson(args.input.as_deref().unwrap_or(""));
            let mut res = Results::create(args.out.as_deref().unwrap_or(""));
            for v in &vectors {
                let bytes = bytes_of(&v["bytes"]);
                let nseg = v["map"].as_array().map(|a| a.len()).unwrap_or(0);
                res.case(fnv(&bytes), nseg > 0);
                let small = json!({"segments": nseg, "bytes_len": bytes.len(), "date": v["date"], "minutes": v["minutes"]});
                let (out, m, detail) = decode(&bytes);
                match m {
                    None => res.mismatch("violation", if out == "panic" { "C13/decode/panic" } else { "C13/decode/rejects_wellformed" }, detail, small.clone()),
                    Some(m) => {
                        if map_json(&map_of(&m)) != v["map"] { res.mismatch("violation", "C13/structure", "decoded segment/azimuth/zone structure differs from the encoded one".into(), small.clone()); }
                        let (segnums, az_ok) = numbering(&m);
                        if segnums != (0..nseg as u64).collect::<Vec<_>>() || !az_ok { res.mismatch("violation", "C13/numbering", format!("segment numbers {:?}, azimuth numbering ok={}", segnums, az_ok), small.clone()); }
                        // the generation date-time accessor: exactly epoch + (date - 1) days + minutes (DateTime.tla's InstantMin, computed by TLC)
                        match guarded(|| m.header.date_time()) {
                            Ok(Some(t)) => { let ms = t.timestamp_millis(); if json!([ms.div_euclid(86_400_000), ms.rem_euclid(86_400_000)]) != v["instant"] { res.mismatch("violation", "C13/generation_date_time", format!("expected {} got {}", v["instant"], t), small.clone()); } }
                            Ok(None) => res.mismatch("violation", "C13/generation_date_time", "accessor returned None".into(), small.clone()),
                            Err(p) => res.mismatch("violation", "C13/generation_date_time/panic", p, small.clone()),
                        }
                        if Some(m.header.map_generation_date as u64) != v["date"].as_u64() || Some(m.header.map_generation_time as u64) != v["minutes"].as_u64() { res.mismatch("violation", "C13/header", "generation date/time fields".into(), small.clone()); }
                        // op codes 0,1,2 -> bypass, bypass-map-in-control, force
                        for s in &m.elevation_segments { for a in &s.azimuth_segments { for z in &a.range_zones {
                            let want = match z.op_code { 0 => "BypassFilter", 1 => "BypassMapInControl", 2 => "ForceFilter", _ => continue };
                            if guarded(|| format!("{:?}", z.op_code())).unwrap_or("panic".into()) != want { res.mismatch("violation", "C13/op_code", format!("code {}", z.op_code), small.clone()); }
                        } } }
                    }
                }
                // a body that ends before the declared structure is complete is an error: every proper prefix
                let mut accepted = Vec::new();
                let step = if bytes.len() > 4000 && !args.thorough { 7 } else { 1 };
                let mut cut = 0;
                while cut < bytes.len() { let (o, _, _) = decode(&bytes[..cut]); if o != "err" { accepted.push((cut, o)); } res.case(fnv(&bytes[..cut]) ^ cut as u64, true); cut += step; }
                if let Some((cut, o)) = accepted.first() { res.mismatch("violation", if *o == "panic" { "C13/decode/panic" } else { "C13/decode/accepts_incomplete_body" }, format!("prefix of {} of {} bytes gave {}", cut, bytes.len(), o), small.clone()); }
                res.sample(json!({"segments": nseg, "bytes_len": bytes.len(), "prefixes_tried": bytes.len().div_ceil(step)}));
            }
            res.finish();
        }
        "record" => {
            let mut rng = Rng::new(args.seed);
            let mut tr = TraceOut::create(args.out.as_deref().unwrap_or(""));
            let mut res = Results::create(args.res.as_deref().unwrap_or(""));
            // full events (TLC re-decodes the bytes): 0..2 segments, zone counts 0..4, sometimes cut
            for k in 0..(if args.thorough { 24 } else { 8 }) {
                let nseg = (k % 3) as usize;
                let map = random_map(&mut rng, nseg, if k % 4 == 0 { 25 } else { 3 }, false);
                let (date, minutes) = (1 + rng.below(65535) as u16, rng.below(1440) as u16);
                let mut bytes = encode(date, minutes, nseg as u16, &map);
                if k % 4 == 3 { let c = rng.below(bytes.len() as u64 + 1) as usize; bytes.truncate(c); }
                res.case(fnv(&bytes), nseg > 0);
                let (out, m, _) = decode(&bytes);
                let (segnums, az_ok) = m.as_ref().map(numbering).unwrap_or((vec![], true));
                tr.ev(json!({"bytes": bytes, "out": out, "date": m.as_ref().map(|m| m.header.map_generation_date).unwrap_or(0), "minutes": m.as_ref().map(|m| m.header.map_generation_time).unwrap_or(0),
                    "map": m.as_ref().map(|m| map_json(&map_of(m))).unwrap_or(json!([])), "segnums": segnums, "aznums_ok": az_ok}));
            }
            // large maps: up to 255 segments, zone counts to 25 and a few huge zone lists
            let sizes: Vec<usize> = if args.thorough { vec![3, 5, 17, 64, 128, 254, 255] } else { vec![3, 5, 40, 255] };
            for (k, nseg) in sizes.iter().enumerate() {
                let map = random_map(&mut rng, *nseg, 25, k % 2 == 0);
                let bytes = encode(20000, 100, *nseg as u16, &map);
                res.case(fnv(&bytes), true);
                let (out, m, _) = decode(&bytes);
                let (segnums, az_ok) = m.as_ref().map(numbering).unwrap_or((vec![], false));
                tr.ev(json!({"big": 1, "nseg": nseg, "out": out, "got_nseg": m.as_ref().map(|m| m.elevation_segments.len()).unwrap_or(0),
                    "numbering_ok": az_ok && segnums == (0..*nseg as u64).collect::<Vec<_>>(), "zones_equal": m.as_ref().map(|m| map_of(m) == map).unwrap_or(false)}));
            }
            res.sample(json!({"full_events": "0..2 segments x 360 azimuths re-decoded by TLC", "big_events": sizes}));
            tr.finish();
            res.finish();
        }
        m => { eprintln!("cfm: unknown mode {m}"); std::process::exit(2) }
    }
}
