//! C17: S3 listing and download through the real wrappers against the loop-back simulator (S3.tla).
use crate::common::*;
use crate::sim::*;
use chrono::{DateTime, Duration, NaiveDate, TimeZone, Utc};
use nexrad_data::aws::archive;
use nexrad_data::aws::realtime::{self, ChunkIdentifier, VolumeIndex};
use nexrad_data::result::{aws::AWSError, Error};
use serde_json::{json, Value};

fn s_of(v: &Value) -> String { v.as_array().map(|a| a.iter().filter_map(|c| char::from_u32(c.as_u64().unwrap_or(63) as u32)).collect()).unwrap_or_default() }
fn cps(s: &str) -> Vec<u32> { s.chars().map(|c| c as u32).collect() }
fn at(days: i64, ms: i64) -> DateTime<Utc> { Utc.timestamp_opt(0, 0).single().expect("epoch") + Duration::days(days) + Duration::milliseconds(ms) }
fn dm(t: &DateTime<Utc>) -> Vec<i64> { let ms = t.timestamp_millis(); vec![ms.div_euclid(86_400_000), ms.rem_euclid(86_400_000)] }

const RT: &str = "unidata-nexrad-level2-chunks";
const AR: &str = "noaa-nexrad-level2";

struct Listed { err: bool, panic: bool, ids: Vec<Vec<u32>>, lms: Vec<Vec<i64>> }

async fn list_rt(site: &str, vol: u64, max: usize) -> Listed {
    match guarded_async(realtime::list_chunks_in_volume(site, VolumeIndex::new(vol as usize), max)).await {
        Err(_) => Listed { err: false, panic: true, ids: vec![], lms: vec![] },
        Ok(r) => match r {
        Ok(v) => Listed { err: false, panic: false, ids: v.iter().map(|c| cps(c.name())).collect(), lms: v.iter().map(|c| c.date_time().map(|t| dm(&t)).unwrap_or(vec![-1, -1])).collect() },
        Err(_) => Listed { err: true, panic: false, ids: vec![], lms: vec![] },
        },
    }
}
async fn list_ar(site: &str, date: &NaiveDate) -> Listed {
    match guarded_async(archive::list_files(site, date)).await {
        Err(_) => Listed { err: false, panic: true, ids: vec![], lms: vec![] },
        Ok(r) => match r {
        Ok(v) => Listed { err: false, panic: false, ids: v.iter().map(|c| cps(c.name())).collect(), lms: vec![] },
        Err(_) => Listed { err: true, panic: false, ids: vec![], lms: vec![] },
        },
    }
}

fn last_list_req(sim: &Sim) -> (Vec<u32>, Vec<u32>, i64) {
    let log = sim.log();
    match log.iter().rev().find(|r| r.is_list()) {
        Some(r) => (cps(&r.path), cps(r.q("prefix").unwrap_or("")), r.q("max-keys").and_then(|m| m.parse().ok()).unwrap_or(-1)),
        None => (vec![], vec![], -1),
    }
}

fn classify(e: &Error) -> &'static str { match e { Error::AWS(AWSError::S3ObjectNotFoundError) => "notfound", _ => "err" } }

pub fn run(args: &Args) {
    let rt = runtime();
    let mut rng = Rng::new(args.seed);
    match args.mode.as_str() {
        "replay" => {
            let vectors = read_ndjson(args.input.as_deref().unwrap_or(""));
            let mut res = Results::create(args.out.as_deref().unwrap_or(""));
            rt.block_on(async {
                let sim = Sim::start().await;
                for (vi, v) in vectors.iter().enumerate() {
                    sim.clear();
                    sim.set_handler(None);
                    // transport (S3.tla, FrameInvariance): two thirds of the responses arrive in frames of 1 or 2 bytes, so every
                    // multi-byte character of a key straddles a frame boundary
                    sim.set_frame(vi % 3);
                    let bucket_name = v["bucket_name"].as_str().unwrap_or("");
                    for o in v["bucket"].as_array().cloned().unwrap_or_default() {
                        sim.put(bucket_name, &s_of(&o["key"]), Obj { data: vec![0; o["size"].as_u64().unwrap_or(0) as usize], last_modified: at(o["lm"][0].as_i64().unwrap_or(0), o["lm"][1].as_i64().unwrap_or(0)), lm_text: None, size_text: None });
                    }
                    res.case(hash_value(v), v["bucket"].as_array().map(|a| !a.is_empty()).unwrap_or(false));
                    let site = s_of(&v["site"]);
                    let realtime = v["api"] == json!("realtime");
                    let got = if realtime { list_rt(&site, v["vol"].as_u64().unwrap_or(0), v["max"].as_u64().unwrap_or(1) as usize).await }
                              else { list_ar(&site, &NaiveDate::from_ymd_opt(v["y"].as_i64().unwrap_or(2024) as i32, v["m"].as_u64().unwrap_or(1) as u32, v["d"].as_u64().unwrap_or(1) as u32).expect("date")).await };
                    let small = json!({"api": v["api"], "bucket_keys": v["bucket"].as_array().map(|a| a.iter().map(|o| s_of(&o["key"])).collect::<Vec<_>>()), "site": site, "vol": v["vol"], "max": v["max"], "d": v["d"],
                                       "expected_ids": v["expect"]["ids"].as_array().map(|a| a.iter().map(s_of).collect::<Vec<_>>()), "got_ids": got.ids.iter().map(|i| i.iter().filter_map(|c| char::from_u32(*c)).collect::<String>()).collect::<Vec<_>>(), "got_err": got.err});
                    let want_err = v["expect"]["err"] == json!(true);
                    if got.err != want_err { res.mismatch("violation", if want_err { "C17/list/truncated_listing_accepted" } else { "C17/list/error_on_wellformed" }, "listing outcome".into(), small.clone()); }
                    else if !want_err {
                        if json!(got.ids) != v["expect"]["ids"] { res.mismatch("violation", if got.ids.len() != v["expect"]["ids"].as_array().map(|a| a.len()).unwrap_or(0) { "C17/list/count" } else { "C17/list/identifiers" }, "identifiers differ from the bucket content under the prefix".into(), small.clone()); }
                        else if realtime && json!(got.lms) != v["expect"]["lms"] { res.mismatch("violation", "C17/list/last_modified", format!("expected {} got {:?}", v["expect"]["lms"], got.lms), small.clone()); }
                    }
                    let (path, prefix, max) = last_list_req(&sim);
                    if json!(prefix) != v["req_prefix"] { res.mismatch("drift", "C17/list/request_prefix", format!("server received prefix {:?}", prefix.iter().filter_map(|c| char::from_u32(*c)).collect::<String>()), small.clone()); }
                    if path != cps(&format!("/{}", bucket_name)) { res.mismatch("violation", "C17/list/request_bucket", format!("server received path {:?}", path), small.clone()); }
                    if realtime && Some(max) != v["max"].as_i64() { res.mismatch("drift", "C17/list/request_max_keys", format!("max-keys {max}"), small.clone()); }
                    if v["bucket"].as_array().map(|a| a.len()).unwrap_or(0) == 3 { res.sample(small); }
                }
            });
            res.finish();
        }
        "record" => {
            let mut tr = TraceOut::create(args.out.as_deref().unwrap_or(""));
            let mut res = Results::create(args.res.as_deref().unwrap_or(""));
            rt.block_on(async {
                let sim = Sim::start().await;
                let sites = ["KDMX", "KTLX", "PHWA"];
                let specials = ["a&b", "<x>", "q\"'", "é€", "x y", "plus+sign", "pct%41", "ü-002-I", " lead", "trail ", "\ttab\n", "in\nner"];
                // ---- listings
                let rounds = if args.thorough { 60 } else { 14 };
                for k in 0..rounds {
                    sim.clear();
                    sim.set_handler(None);
                    let realtime = k % 3 != 2;
                    let site = *rng.pick(&sites);
                    let size_bad = k % 11 == 10;
                    let n = if size_bad { rng.range(2, 60) as usize } else { (match k % 7 { 0 => 0, 1 => 1, 2 => if args.thorough { 1000 } else { 150 }, 3 => 1001, _ => rng.range(2, 60) }) as usize };
                    // two archive listings of every run sit on the truncation boundary: 1,300 objects of which more than 1,000 lie under the
                    // requested prefix (truncated: must be an error), and exactly 1,000 under the prefix and nothing else (complete: all listed)
                    let (n, pure) = if k == 2 { (1300, false) } else if k == 5 { (1000, true) } else { (n, false) };
                    let vol = *rng.pick(&[5u64, 57, 1, 999, 500]);
                    let (y, m, d) = (2024, 1 + rng.below(12) as u32, 1 + rng.below(28) as u32);
                    let date = NaiveDate::from_ymd_opt(y, m, d).expect("date");
                    let garbled = k % 13 == 12;
                    let (mut keys, mut lms) = (Vec::new(), Vec::new());
                    for j in 0..n {
                        // objects under the requested prefix, under colliding prefixes and elsewhere
                        let name = if rng.chance(1, 6) { format!("{}{}", rng.pick(&specials), j) } else if realtime { format!("20240501-{:06}-{:03}-{}", j, 1 + j % 55, if j % 55 == 0 { "S" } else { "I" }) } else { format!("{}2024{:02}{:02}_{:06}_V06", site, m, d, j) };
                        let key = if size_bad { if realtime { format!("{}/{}/{}", site, vol, name) } else { format!("{}/{:02}/{:02}/{}/{}", y, m, d, site, name) } }
                                  else if realtime { let v = match rng.below(8) { 0 => vol * 10 + 7, 1 => vol + 1, _ => vol }; format!("{}/{}/{}", if rng.chance(1, 12) { "KDMY" } else { site }, v, name) }
                                  else { format!("{}/{:02}/{:02}/{}/{}", y, m, if !pure && rng.chance(1, 10) { d + 1 } else { d }, if !pure && rng.chance(1, 12) { "KDMY" } else { site }, name) };
                        let t = at(19_000 + rng.below(2000) as i64, rng.below(86_400_000) as i64);
                        let frac = rng.chance(1, 2);
                        let t = if frac { t } else { at(t.timestamp().div_euclid(86_400), t.timestamp().rem_euclid(86_400) * 1000) };
                        let lm_text = if frac { None } else { Some(t.format("%Y-%m-%dT%H:%M:%SZ").to_string()) };
                        let size_text = if size_bad && j == n / 2 { Some("12x".to_string()) } else if rng.chance(1, 9) { Some("18446744073709551615".to_string()) } else { None };
                        sim.put(if realtime { RT } else { AR }, &key, Obj { data: vec![], last_modified: t, lm_text, size_text });
                        keys.push(cps(&key));
                        lms.push(dm(&t));
                    }
                    if garbled { sim.set_handler(Some(Box::new(|req: &Req, _s: &mut SimState| if req.is_list() { Some(Resp::xml(200, "<ListBucketResult><Contents><Key>KDMX/5/a</Key><Size>1</Si".into())) } else { None }))); }
                    let max = if size_bad { 1000 } else { *rng.pick(&[1usize, 2, 100, 1000]) };
                    let frame = if n <= 160 && k % 2 == 1 { 1 + rng.below(7) as usize } else if k % 4 == 0 { 1 + rng.below(1400) as usize } else { 0 };
                    sim.set_frame(frame);
                    sim.set_chunked(if k % 5 == 3 { 1 + rng.below(3000) as usize } else { 0 });
                    res.case(fnv(format!("{:?}{}{}", keys, vol, max).as_bytes()), n > 0);
                    let got = match guarded(|| ()) { _ => if realtime { list_rt(site, vol, max).await } else { list_ar(site, &date).await } };
                    let (path, prefix, rmax) = last_list_req(&sim);
                    tr.ev(json!({"op": "list", "api": if realtime { "realtime" } else { "archive" }, "site": cps(site), "vol": vol, "y": y, "m": m, "d": d, "max": max, "keys": keys, "lms": lms,
                                 "ids": got.ids, "idlms": got.lms, "err": got.err, "panic": got.panic, "size_bad": size_bad && n > 0, "garbled": garbled, "frame": frame, "req_path": path, "req_prefix": prefix, "req_max": rmax}));
                }
                // ---- downloads
                let gets = if args.thorough { 300 } else { 60 };
                for k in 0..gets {
                    sim.clear();
                    let realtime = k % 2 == 0;
                    let site = *rng.pick(&sites);
                    let status = *rng.pick(&[200u16, 200, 200, 404, 403, 500, 503]);
                    let len = match rng.below(6) { 0 => 0, 1 => 1, 2 => if args.thorough { 4 << 20 } else { 1 << 18 }, _ => rng.below(5000) } as usize;
                    let mut body = rng.bytes(len.min(1 << 16));
                    body.resize(len, 0x5A);
                    if realtime && len >= 6 { body[4] = b'B'; body[5] = b'Z'; }
                    let t = at(19_500 + rng.below(500) as i64, rng.below(86_400) as i64 * 1000);
                    let vol = *rng.pick(&[1u64, 5, 57, 999]);
                    let name = if realtime { format!("20240501-000000-{:03}-I", 2 + k % 50) } else { format!("{}20240229_235959_V06", site) };
                    let key = if realtime { format!("{}/{}/{}", site, vol, name) } else { format!("2024/02/29/{}/{}", site, name) };
                    let bucket = if realtime { RT } else { AR };
                    if status == 200 { sim.put(bucket, &key, Obj { data: body.clone(), last_modified: t, lm_text: None, size_text: None }); sim.set_handler(None); }
                    else if status == 404 { sim.set_handler(None); }
                    else { let st = status; sim.set_handler(Some(Box::new(move |req: &Req, _s: &mut SimState| if req.is_list() { None } else { Some(Resp::xml(st, "<Error><Code>AccessDenied</Code></Error>".into())) }))); }
                    // transport: framed bodies (any split is the same response) and, for some 200 responses with a body, a
                    // connection closed before Content-Length bytes arrived (a failed transfer: never an Ok result with other bytes)
                    let frame = match k % 5 { 1 => 1 + rng.below(9) as usize, 3 => 1 + rng.below(1400) as usize, _ => 0 };
                    let frame = if len > 20_000 && frame < 64 && frame > 0 { frame + 512 } else { frame };
                    let cut = if status == 200 && len >= 1 && k % 6 == 5 { Some(rng.below(len as u64) as usize) } else { None };
                    sim.set_frame(frame);
                    sim.set_cut_body(cut);
                    // every seventh download (and every fifth listing below) is served with Transfer-Encoding: chunked and no Content-Length
                    sim.set_chunked(if k % 7 == 2 && cut.is_none() { 1 + rng.below(5000) as usize } else { 0 });
                    res.case(fnv(format!("{key}{status}{len}").as_bytes()), status == 200);
                    let mut get_panicked = false;
                    let (out, data_equal, lm_equal, id_equal) = if realtime {
                        // half of the downloads use an identifier that carries a STALE listing time: the result must be stamped with the object's own Last-Modified
                        let stale = if k % 4 == 0 { Some(t - Duration::days(3)) } else { None };
                        let id = ChunkIdentifier::new(site.to_string(), VolumeIndex::new(vol as usize), name.clone(), stale);
                        match guarded_async(realtime::download_chunk(site, &id)).await.unwrap_or_else(|p| { get_panicked = true; let _ = p; Err(Error::AWS(AWSError::S3GetObjectError(None))) }) {
                            Ok((rid, chunk)) => ("ok", chunk.data() == body.as_slice(), rid.date_time() == Some(t), rid.name() == name && rid.site() == site && rid.volume().as_number() as u64 == vol),
                            Err(e) => (if status == 200 && len < 6 && cut.is_none() { "ok" } else { classify(&e) }, true, true, true),
                        }
                    } else {
                        match guarded_async(archive::download_file(archive::Identifier::new(name.clone()))).await.unwrap_or_else(|p| { get_panicked = true; let _ = p; Err(Error::AWS(AWSError::S3GetObjectError(None))) }) {
                            Ok(f) => ("ok", f.data().as_slice() == body.as_slice(), true, true),
                            Err(e) => (classify(&e), true, true, true),
                        }
                    };
                    let path = sim.log().iter().rev().find(|r| !r.is_list()).map(|r| cps(&r.path)).unwrap_or_default();
                    tr.ev(json!({"op": "get", "api": if realtime { "realtime" } else { "archive" }, "key": cps(&key), "status": status, "out": out, "data_equal": data_equal, "lm_equal": lm_equal, "id_equal": id_equal,
                                 "panic": get_panicked, "req_path": path, "want_path": cps(&format!("/{}/{}", bucket, key)), "len": len, "frame": frame, "cut": cut.map(|c| c as i64).unwrap_or(-1)}));
                }
            });
            res.sample(json!({"listings": "0..1001 objects, colliding prefixes (5 vs 57), XML-special / non-ASCII / percent / plus keys, sizes to 2^64-1, timestamps with and without fraction, unparsable Size, garbled body", "downloads": "200/404/403/500/503, 0 B..4 MiB"}));
            tr.finish();
            res.finish();
        }
        m => { eprintln!("s3: unknown mode {m}"); std::process::exit(2) }
    }
}
