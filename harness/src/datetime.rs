//! C08: every ICD date/time accessor of both crates against DateTime.tla.
use crate::common::*;
use chrono::{DateTime, Datelike, Timelike, Utc};
use nexrad_decode::messages::clutter_filter_map::decode_clutter_filter_map;
use nexrad_decode::messages::decode_message_header;
use nexrad_decode::messages::digital_radar_data::decode_digital_radar_data;
use nexrad_decode::messages::rda_status_data::decode_rda_status_message;
use serde_json::{json, Value};
use std::io::Cursor;

fn fields(dt: Option<DateTime<Utc>>) -> Value {
    match dt {
        None => json!({"none": true, "days": 0, "ms": 0, "y": 0, "mo": 0, "da": 0, "h": 0, "mi": 0, "s": 0, "ms3": 0, "subms": 0}),
        Some(t) => {
            let n = t.naive_utc();
            let days = n.date().num_days_from_ce() as i64 - 719_163;
            let ms = n.time().num_seconds_from_midnight() as i64 * 1000 + (n.time().nanosecond() / 1_000_000) as i64;
            json!({"none": false, "days": days, "ms": ms, "y": n.year(), "mo": n.month(), "da": n.day(), "h": n.hour(), "mi": n.minute(), "s": n.second(), "ms3": n.time().nanosecond() / 1_000_000 % 1000,
                   "subms": n.time().nanosecond() % 1_000_000})
        }
    }
}

fn ts_fields(ts: Option<i64>) -> Value {
    match ts {
        None => json!({"none": true, "days": 0, "ms": 0, "y": 0, "mo": 0, "da": 0, "h": 0, "mi": 0, "s": 0, "ms3": 0, "subms": 0}),
        Some(ts) => {
            let mut v = fields(DateTime::from_timestamp_millis(ts));
            v["days"] = json!(ts.div_euclid(86_400_000));
            v["ms"] = json!(ts.rem_euclid(86_400_000));
            v
        }
    }
}

fn call(acc: &str, d: u32, t: u32) -> Result<Value, String> {
    guarded(|| match acc {
        "message_header" => {
            let mut b = vec![0u8; 28];
            b[18..20].copy_from_slice(&(d as u16).to_be_bytes());
            b[20..24].copy_from_slice(&t.to_be_bytes());
            fields((if dribbled(&b) { decode_message_header(&mut Dribble::new(&b)) } else { decode_message_header(&mut b.as_slice()) }).expect("hdr").date_time())
        }
        "drd_header" | "radial_timestamp" => {
            let mut b = vec![0u8; 32];
            b[4..8].copy_from_slice(&t.to_be_bytes());
            b[8..10].copy_from_slice(&(d as u16).to_be_bytes());
            let m = (if dribbled(&b) { decode_digital_radar_data(&mut Dribble::new(&b)) } else { decode_digital_radar_data(&mut Cursor::new(&b)) }).expect("drd");
            if acc == "drd_header" { fields(m.header.date_time()) } else { ts_fields(m.radial().ok().map(|r| r.collection_timestamp())) }
        }
        "volume_header" => {
            let mut b = vec![0u8; 24];
            b[..9].copy_from_slice(b"AR2V0006.");
            b[12..16].copy_from_slice(&d.to_be_bytes());
            b[16..20].copy_from_slice(&t.to_be_bytes());
            fields((if dribbled(&b) { nexrad_data::volume::Header::deserialize(&mut Dribble::new(&b)) } else { nexrad_data::volume::Header::deserialize(&mut b.as_slice()) }).expect("vol").date_time())
        }
        "rda_bypass_map" | "rda_clutter_filter_map" => {
            let mut b = vec![0u8; 120];
            let off = if acc == "rda_bypass_map" { 36 } else { 40 };
            b[off..off + 2].copy_from_slice(&(d as u16).to_be_bytes());
            b[off + 2..off + 4].copy_from_slice(&(t as u16).to_be_bytes());
            let m = (if dribbled(&b) { decode_rda_status_message(&mut Dribble::new(&b)) } else { decode_rda_status_message(&mut b.as_slice()) }).expect("rda");
            fields(if acc == "rda_bypass_map" { m.bypass_map_generation_date_time() } else { m.clutter_filter_map_generation_date_time() })
        }
        "cfm_header" => {
            let mut b = vec![0u8; 6];
            b[0..2].copy_from_slice(&(d as u16).to_be_bytes());
            b[2..4].copy_from_slice(&(t as u16).to_be_bytes());
            fields((if dribbled(&b) { decode_clutter_filter_map(&mut Dribble::new(&b)) } else { decode_clutter_filter_map(&mut b.as_slice()) }).expect("cfm").header.date_time())
        }
        _ => json!({}),
    })
}

pub fn run(args: &Args) {
    if args.mode != "record" { eprintln!("datetime: only record"); std::process::exit(2); }
    let mut rng = Rng::new(args.seed);
    let mut tr = TraceOut::create(args.out.as_deref().unwrap_or(""));
    let mut res = Results::create(args.res.as_deref().unwrap_or(""));
    let ms_acc = ["message_header", "drd_header", "volume_header", "radial_timestamp"];
    let min_acc = ["rda_bypass_map", "rda_clutter_filter_map", "cfm_header"];
    let mut emit = |acc: &str, unit: &str, d: u32, t: u32, inrange: bool, tr: &mut TraceOut, res: &mut Results| {
        res.case(fnv(format!("{acc}{d}/{t}").as_bytes()), inrange);
        let mut e = match call(acc, d, t) {
            Ok(v) => { let mut v = v; v["panic"] = json!(false); v }
            Err(_) => json!({"panic": true, "none": true, "days": 0, "ms": 0, "y": 0, "mo": 0, "da": 0, "h": 0, "mi": 0, "s": 0, "ms3": 0, "subms": 0}),
        };
        e["acc"] = json!(acc); e["unit"] = json!(unit); e["d"] = json!(d); e["t"] = json!(t); e["inrange"] = json!(inrange);
        tr.ev(e);
    };
    // in range: all 65,535 day counts
    for d in 1..=65535u32 {
        let ts = [0u32, 1, 86_399_999, rng.below(86_400_000) as u32];
        for (k, acc) in ms_acc.iter().enumerate() {
            if args.thorough { for t in ts { emit(acc, "ms", d, t, true, &mut tr, &mut res); } }
            else { emit(acc, "ms", d, ts[(k + d as usize) % 4], true, &mut tr, &mut res); }
        }
    }
    let days: Vec<u32> = if args.thorough { (0..64).map(|k| 1 + k * 1040).chain([65535]).collect() } else { vec![1, 2, 59, 60, 19782, 19783, 47541, 65535] };
    for d in days { for m in 0..1440u32 { for acc in min_acc { emit(acc, "min", d, m, true, &mut tr, &mut res); } } }
    // an accessor must not depend on what the thread computed before: boundary dates as the FIRST call of a fresh thread
    // (a per-thread cache, a lazily initialised table)
    for acc in ms_acc.iter().chain(min_acc.iter()) {
        for d in [65535u32, 1, 65534, 2, 32768, 19782, 60, 59] {
            let unit = if ms_acc.contains(acc) { "ms" } else { "min" };
            let t = if unit == "ms" { 86_399_999u32 } else { 1439 };
            let acc_s = acc.to_string();
            let v = std::thread::spawn(move || call(&acc_s, d, t)).join().unwrap_or_else(|_| Err("thread panicked".into()));
            res.case(fnv(format!("fresh{acc}{d}").as_bytes()), true);
            let mut e = match v { Ok(v) => { let mut v = v; v["panic"] = json!(false); v }
                                  Err(_) => json!({"panic": true, "none": true, "days": 0, "ms": 0, "y": 0, "mo": 0, "da": 0, "h": 0, "mi": 0, "s": 0, "ms3": 0, "subms": 0}) };
            e["acc"] = json!(acc); e["unit"] = json!(unit); e["d"] = json!(d); e["t"] = json!(t); e["inrange"] = json!(true); e["fresh_thread"] = json!(true);
            tr.ev(e);
        }
    }
    // out of range: only "returns without panicking"
    let bad_ms = [86_400_000u32, 86_400_001, 172_800_000, 2_147_483_647, 2_147_483_648, u32::MAX];
    for acc in ms_acc {
        for t in bad_ms { for d in [0u32, 1, 65535] { emit(acc, "ms", d, t, false, &mut tr, &mut res); } }
        emit(acc, "ms", 0, 0, false, &mut tr, &mut res);
    }
    for d in [65536u32, 65537, 100_000_000, 2_147_483_648, u32::MAX] { for t in [0u32, 86_399_999, u32::MAX] { emit("volume_header", "ms", d, t, false, &mut tr, &mut res); } }
    // the date word of the volume header is 32 bits wide: the neighbourhood of the last day a calendar library can represent
    // (day 95,026,237 after the epoch is 31 Dec of year 262142) with times of day on both sides of 24 h
    for d in 95_026_100u32..=95_026_300 { for t in [0u32, 86_399_999, 86_400_000, 172_800_000, u32::MAX] { emit("volume_header", "ms", d, t, false, &mut tr, &mut res); } }
    for acc in min_acc { for m in [1440u32, 1441, 32767, 32768, 65535] { for d in [0u32, 1, 65535] { emit(acc, "min", d, m, false, &mut tr, &mut res); } } emit(acc, "min", 0, 0, false, &mut tr, &mut res); }
    res.sample(json!({"accessors": ms_acc.iter().chain(min_acc.iter()).collect::<Vec<_>>(), "example": call("message_header", 19783, 45_296_789).unwrap_or(json!(null))}));
    tr.finish();
    res.finish();
}
