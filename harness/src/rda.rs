//! C12: RDA status message against RdaStatus.tla.
use crate::common::*;
use crate::drd::bytes_of;
use crate::icd::*;
use nexrad_decode::messages::rda_status_data::alarm::get_alarm_message;
use nexrad_decode::messages::rda_status_data::{decode_rda_status_message, ClutterMitigationDecisionStatus, Message};
use serde_json::json;

fn offset(l: &Layouts, field: &str) -> usize {
    l.get("rda").fields.iter().find(|f| f.0 == field).map(|f| f.2).unwrap_or_else(|| { eprintln!("no field {field}"); std::process::exit(2) })
}
fn msg_with(off: usize, raw: u16) -> Message {
    let mut b = vec![0u8; 120];
    b[off..off + 2].copy_from_slice(&raw.to_be_bytes());
    decode_rda_status_message(&mut b.as_slice()).expect("120 bytes decode")
}

fn code_name(acc: &str, m: &Message) -> String {
    match acc {
        "rda_status" => format!("{:?}", m.rda_status()),
        "operability_status" => format!("{:?}", m.operability_status()),
        "control_status" => format!("{:?}", m.control_status()),
        "auxiliary_power_generator_state" => format!("{:?}", m.auxiliary_power_generator_state()),
        "rda_control_authorization" => format!("{:?}", m.rda_control_authorization()),
        "operational_mode" => format!("{:?}", m.operational_mode()),
        "super_resolution_status" => format!("{:?}", m.super_resolution_status()),
        "command_acknowledgement" => format!("{:?}", m.command_acknowledgement()),
        "controlling_channel" => format!("{}", m.controlling_channel()),
        "spot_blanking_status" => format!("{:?}", m.spot_blanking_status()),
        "transition_power_source_status" => format!("{:?}", m.transition_power_source_status()),
        "rms_control_status" => format!("{:?}", m.rms_control_status()),
        "performance_check_status" => format!("{:?}", m.performance_check_status()),
        _ => "?".into(),
    }
}
const CODED: [(&str, &str); 13] = [("rda_status", "rda_status"), ("operability_status", "operability_status"), ("control_status", "control_status"),
    ("auxiliary_power_generator_state", "auxiliary_power_generator_state"), ("rda_control_authorization", "rda_control_authorization"),
    ("operational_mode", "operational_mode"), ("super_resolution_status", "super_resolution_status"), ("command_acknowledgement", "command_acknowledgement"),
    ("controlling_channel", "channel_control_status"), ("spot_blanking_status", "spot_blanking_status"),
    ("transition_power_source_status", "transition_power_source_status"), ("rms_control_status", "rms_control_status"), ("performance_check_status", "performance_check_status")];

fn x100(v: f32, raw_hint: f64) -> i64 { let x = v as f64 * 100.0; if (x - x.round()).abs() < 0.01 { x.round() as i64 } else { let _ = raw_hint; -777_777 } }

fn value(acc: &str, m: &Message) -> i64 {
    let b = |x: bool| x as i64;
    match acc {
        "dte_none" => b(m.data_transmission_enabled().none()),
        "dte_reflectivity" => b(m.data_transmission_enabled().reflectivity()),
        "dte_velocity" => b(m.data_transmission_enabled().velocity()),
        "dte_spectrum_width" => b(m.data_transmission_enabled().spectrum_width()),
        "sdf_avset_enabled" => b(m.rda_scan_and_data_flags().avset_enabled()),
        "sdf_ebc_enabled" => b(m.rda_scan_and_data_flags().ebc_enabled()),
        "sdf_rda_log_data_enabled" => b(m.rda_scan_and_data_flags().rda_log_data_enabled()),
        "sdf_time_series_data_recording_enabled" => b(m.rda_scan_and_data_flags().time_series_data_recording_enabled()),
        "alarm_none" => b(m.rda_alarm_summary().none()),
        "alarm_tower_utilities" => b(m.rda_alarm_summary().tower_utilities()),
        "alarm_pedestal" => b(m.rda_alarm_summary().pedestal()),
        "alarm_transmitter" => b(m.rda_alarm_summary().transmitter()),
        "alarm_receiver" => b(m.rda_alarm_summary().receiver()),
        "alarm_rda_control" => b(m.rda_alarm_summary().rda_control()),
        "alarm_communication" => b(m.rda_alarm_summary().communication()),
        "alarm_signal_processor" => b(m.rda_alarm_summary().signal_processor()),
        "horizontal_reflectivity_calibration_correction_x100" => x100(m.horizontal_reflectivity_calibration_correction(), 0.0),
        "rda_build_number_x100" => x100(m.rda_build_number(), 0.0),
        "vcp_present" => b(m.volume_coverage_pattern().is_some()),
        "vcp_number" => m.volume_coverage_pattern().map(|v| v.number() as i64).unwrap_or(0),
        "vcp_local" => m.volume_coverage_pattern().map(|v| b(v.local())).unwrap_or(0),
        "vcp_remote" => m.volume_coverage_pattern().map(|v| b(v.remote())).unwrap_or(0),
        "clutter_kind" => match m.clutter_mitigation_decision_status() { ClutterMitigationDecisionStatus::Disabled => 0, ClutterMitigationDecisionStatus::Enabled => 1, ClutterMitigationDecisionStatus::BypassMapElevationSegments(_) => 2 },
        "clutter_segments_mask" => match m.clutter_mitigation_decision_status() {
            ClutterMitigationDecisionStatus::BypassMapElevationSegments(s) => s.iter().map(|i| if (1..=5).contains(i) { 1i64 << (i - 1) } else { 1 << 15 }).sum(),
            _ => 0 },
        _ => -999,
    }
}
const VALUED: [(&str, &str); 25] = [("dte_none", "data_transmission_enabled"), ("dte_reflectivity", "data_transmission_enabled"), ("dte_velocity", "data_transmission_enabled"),
    ("dte_spectrum_width", "data_transmission_enabled"), ("sdf_avset_enabled", "rda_scan_and_data_flags"), ("sdf_ebc_enabled", "rda_scan_and_data_flags"),
    ("sdf_rda_log_data_enabled", "rda_scan_and_data_flags"), ("sdf_time_series_data_recording_enabled", "rda_scan_and_data_flags"),
    ("alarm_none", "rda_alarm_summary"), ("alarm_tower_utilities", "rda_alarm_summary"), ("alarm_pedestal", "rda_alarm_summary"), ("alarm_transmitter", "rda_alarm_summary"),
    ("alarm_receiver", "rda_alarm_summary"), ("alarm_rda_control", "rda_alarm_summary"), ("alarm_communication", "rda_alarm_summary"), ("alarm_signal_processor", "rda_alarm_summary"),
    ("horizontal_reflectivity_calibration_correction_x100", "horizontal_reflectivity_calibration_correction"), ("rda_build_number_x100", "rda_build_number"),
    ("vcp_present", "volume_coverage_pattern"), ("vcp_number", "volume_coverage_pattern"), ("vcp_local", "volume_coverage_pattern"), ("vcp_remote", "volume_coverage_pattern"),
    ("clutter_kind", "clutter_mitigation_decision_status"), ("clutter_segments_mask", "clutter_mitigation_decision_status"), ("alarm_none", "rda_alarm_summary")];

pub fn run(args: &Args) {
    let l = Layouts::load();
    match args.mode.as_str() {
        "replay" => {
            let vectors = read_ndjson(args.input.as_deref().unwrap_or(""));
            let mut res = Results::create(args.out.as_deref().unwrap_or(""));
            for v in &vectors {
                let bytes = bytes_of(&v["bytes"]);
                res.case(fnv(&bytes), true);
                let small = json!({"bytes": v["bytes"]});
                match guarded(|| if dribbled(&bytes) { decode_rda_status_message(&mut Dribble::new(&bytes)) } else { decode_rda_status_message(&mut bytes.as_slice()) }) {
                    Ok(Ok(m)) => {
                        let got = rda_message(&m);
                        for (k, want) in fields_from_json(&v["fields"]) { if got.get(&k) != Some(&want) { res.mismatch("violation", &format!("C12/field/{k}"), format!("expected {:?} got {:?}", want, got.get(&k)), small.clone()); } }
                        res.sample(json!({"bytes_len": bytes.len(), "rda_status_halfword": got.get("rda_status"), "status_version_halfword": got.get("status_version")}));
                    }
                    Ok(Err(e)) => res.mismatch("violation", "C12/decode/error", format!("{e:?}"), small),
                    Err(p) => res.mismatch("violation", "C12/decode/panic", p, small),
                }
            }
            res.finish();
        }
        "record" => {
            let mut rng = Rng::new(args.seed);
            let mut tr = TraceOut::create(args.out.as_deref().unwrap_or(""));
            let mut res = Results::create(args.res.as_deref().unwrap_or(""));
            for (acc, field) in CODED {
                let off = offset(&l, field);
                let names: Vec<String> = (0..256u16).map(|c| { res.case(fnv(format!("{acc}{c}").as_bytes()), true); let m = msg_with(off, c); guarded(|| code_name(acc, &m)).unwrap_or("panic".into()) }).collect();
                tr.ev(json!({"acc": acc, "names": names}));
            }
            for (acc, field) in VALUED.iter().take(24) {
                let off = offset(&l, field);
                let vals: Vec<i64> = (0..=65535u16).map(|raw| { res.case(fnv(format!("{acc}{raw}").as_bytes()), true); let m = msg_with(off, raw); guarded(|| value(acc, &m)).unwrap_or(-997) }).collect();
                tr.ev(json!({"acc": acc, "vals": vals}));
            }
            let mut found = Vec::with_capacity(65536);
            let mut codes = Vec::with_capacity(65536);
            for c in 0..=65535u16 {
                res.case(fnv(format!("alarm{c}").as_bytes()), true);
                match guarded(|| get_alarm_message(c)) { Ok(Some(d)) => { found.push(1); codes.push(d.code() as i64); } Ok(None) => { found.push(0); codes.push(-1); } Err(_) => { found.push(-997); codes.push(-997); } }
            }
            tr.ev(json!({"alarm": 1, "found": found, "codes": codes}));
            let off = offset(&l, "alarm_codes");
            for _ in 0..(if args.thorough { 10_000 } else { 1_500 }) {
                let input: Vec<u16> = (0..14).map(|_| match rng.below(5) { 0 => 0, 1 => rng.below(801) as u16, 2 => *rng.pick(&[1u16, 14, 24, 700, 800, 801, 65535]), 3 => 801 + rng.below(2000) as u16, _ => rng.below(200) as u16 }).collect();
                let mut b = vec![0u8; 120];
                for (k, c) in input.iter().enumerate() { b[off + 2 * k..off + 2 * k + 2].copy_from_slice(&c.to_be_bytes()); }
                res.case(fnv(&b), input.iter().any(|c| *c != 0));
                let m = decode_rda_status_message(&mut b.as_slice()).expect("decode");
                match guarded(|| m.alarm_messages().iter().map(|d| d.code()).collect::<Vec<_>>()) {
                    Ok(out) => tr.ev(json!({"msg": 1, "in": input, "out": out})),
                    Err(p) => res.mismatch("violation", "C12/alarm/messages_panic", p, json!({"in": input})),
                }
            }
            res.sample(json!({"coded_accessors": CODED.len(), "valued_accessors": 24, "alarm_codes": 65536}));
            tr.finish();
            res.finish();
        }
        m => { eprintln!("rda: unknown mode {m}"); std::process::exit(2) }
    }
}
