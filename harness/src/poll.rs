//! C18: the real poll_chunks against the loop-back S3 simulator; the merged event log is validated
//! by Trace_Poll.tla.  Everything (poller, simulator, consumer logic) runs on ONE single-threaded
//! runtime with a paused clock, so the order of events is the program order.
use crate::common::*;
use crate::container::{bz, prefix};
use crate::sim::*;
use chrono::{DateTime, Duration, TimeZone, Utc};
use nexrad_data::aws::realtime::{poll_chunks, Chunk, ChunkIdentifier, PollStats};
use serde_json::{json, Value};
use std::collections::HashMap;
use std::sync::mpsc::{channel, Receiver, Sender};
use std::sync::{Arc, Mutex};

const BUCKET: &str = "unidata-nexrad-level2-chunks";
const SITE: &str = "KDMX";
const MAXVOL: u64 = 999;
const LASTSEQ: u64 = 55;

fn succ(p: (u64, u64)) -> (u64, u64) { if p.1 < LASTSEQ { (p.0, p.1 + 1) } else { (if p.0 + 1 > MAXVOL { 1 } else { p.0 + 1 }, 1) } }
fn letter(seq: u64) -> &'static str { if seq == 1 { "S" } else if seq == LASTSEQ { "E" } else { "I" } }

struct World {
    up: (u64, u64),
    count: u64,                                   // chunks uploaded so far (orders upload times)
    volume_serial: u64,                           // volumes started so far (orders name prefixes)
    prefix_of: HashMap<u64, String>,              // directory -> name prefix of its current generation
    uploaded: HashMap<(u64, String), (Vec<u8>, DateTime<Utc>, u64)>,   // (vol, name) -> bytes, upload time, seq
    base: DateTime<Utc>,
    /// composition mode (System.tla): chunks carry real LDM records of real type-31 messages
    system: Option<(crate::icd::Layouts, Rng)>,
    next_id: u64,
    radials: HashMap<(u64, u64), Vec<(u8, u64)>>,                      // (vol, seq) of the current generation -> [(elevation, tag)]
    /// hazard scenario PollShort: every volume ends (type letter E) at this sequence instead of 55
    short_len: Option<u64>,
}

fn vcp_frame() -> Vec<u8> {
    let mut f = crate::frames::msg_header_bytes(5, 1, 1208);
    let mut body = vec![0u8; 2404];
    body[2..4].copy_from_slice(&2u16.to_be_bytes());
    body[4..6].copy_from_slice(&212u16.to_be_bytes());
    body[6..8].copy_from_slice(&3u16.to_be_bytes());
    for k in 0..3 { let o = 22 + 46 * k; body[o + 2] = 1; body[o + 3] = if k == 0 { 1 } else { 2 }; body[o + 4] = 1; }
    f.extend_from_slice(&body);
    f
}

fn chunk_bytes(vol: u64, seq: u64, serial: u64) -> Vec<u8> {
    let payload = bz(&if seq == 1 { vcp_frame() } else { format!("chunk vol={vol} seq={seq} serial={serial} {}", "x".repeat((seq % 7) as usize * 13)).into_bytes() });
    let mut out = Vec::new();
    if seq == 1 { out.extend_from_slice(b"AR2V0006."); out.extend_from_slice(format!("{:03}", vol).as_bytes()); out.extend_from_slice(&19_800u32.to_be_bytes()); out.extend_from_slice(&(serial as u32).to_be_bytes()); out.extend_from_slice(b"KDMX"); }
    out.extend_from_slice(&prefix(payload.len(), true));
    out.extend_from_slice(&payload);
    out
}

impl World {
    fn upload(&mut self, s: &mut SimState, pos: (u64, u64)) {
        if pos.1 == 1 {
            self.volume_serial += 1;
            // a new generation of this directory: forget what the previous rotation left there
            let stale: Vec<String> = s.objects.keys().filter(|k| k.starts_with(&format!("{BUCKET}/{SITE}/{}/", pos.0))).cloned().collect();
            for k in stale { s.objects.remove(&k); }
            let t = self.base + Duration::minutes(self.volume_serial as i64 * 5);
            self.prefix_of.insert(pos.0, t.format("%Y%m%d-%H%M%S").to_string());
        }
        self.count += 1;
        let end = self.short_len.unwrap_or(LASTSEQ);
        let name = format!("{}-{:03}-{}", self.prefix_of[&pos.0], pos.1, if pos.1 == 1 { "S" } else if pos.1 == end { "E" } else { "I" });
        let bytes = if self.system.is_some() { self.system_chunk(pos) } else { chunk_bytes(pos.0, pos.1, self.count) };
        let lm = self.base + Duration::seconds(self.count as i64 * 4);
        s.objects.insert(format!("{BUCKET}/{SITE}/{}/{}", pos.0, name), Obj { data: bytes.clone(), last_modified: lm, lm_text: None, size_text: None });
        self.uploaded.insert((pos.0, name), (bytes, lm, pos.1));
        self.up = pos;
    }
}

impl World {
    /// chunk 1: volume header + record(VCP frame); chunk s > 1: one record with 1..4 radials of elevation 1 + (s-2)/6,
    /// tags increasing; the first radial of a volume carries the VOL block
    fn system_chunk(&mut self, pos: (u64, u64)) -> Vec<u8> {
        let (l, rng) = self.system.as_mut().expect("system mode");
        let mut out = Vec::new();
        let mut rads = Vec::new();
        let payload = if pos.1 == 1 {
            out.extend_from_slice(b"AR2V0006."); out.extend_from_slice(format!("{:03}", pos.0).as_bytes()); out.extend_from_slice(&19_800u32.to_be_bytes()); out.extend_from_slice(&0u32.to_be_bytes()); out.extend_from_slice(b"KDMX");
            bz(&vcp_frame())
        } else {
            let n = 1 + rng.below(4);
            let mut frames = Vec::new();
            for k in 0..n {
                let el = (1 + (pos.1 - 2) / 6) as u8;
                let id = self.next_id; self.next_id += 1;
                let sym = crate::scan::Sym { radial: true, el, vol: if pos.1 == 2 && k == 0 { 212 } else { 0 }, id };
                frames.extend_from_slice(&crate::scan::frame(l, rng, &sym, id as usize));
                rads.push((el, id));
                if rng.chance(1, 9) { frames.extend_from_slice(&crate::scan::frame(l, rng, &crate::scan::Sym { radial: false, el: 0, vol: 0, id: 0 }, id as usize)); }
            }
            bz(&frames)
        };
        out.extend_from_slice(&prefix(payload.len(), true));
        out.extend_from_slice(&payload);
        self.radials.insert(pos, rads);
        out
    }
}

/// Consumer side of the composition: decode a delivered chunk with the public API.
fn decode_chunk(chunk: &Chunk<'_>) -> Result<Vec<(u8, i64)>, String> {
    use nexrad_decode::messages::MessageContents;
    let base = (crate::scan::DATE as i64 - 1) * 86_400_000;
    guarded(|| {
        let records = match chunk { Chunk::Start(file) => file.records(), Chunk::IntermediateOrEnd(record) => vec![record.clone()] };
        let mut out = Vec::new();
        for mut record in records {
            if record.compressed() { record = record.decompress().map_err(|e| format!("{e:?}"))?; }
            for m in record.messages().map_err(|e| format!("{e:?}"))? {
                if let MessageContents::DigitalRadarData(d) = m.into_contents() { let r = d.into_radial().map_err(|e| format!("{e:?}"))?; out.push((r.elevation_number(), r.collection_timestamp() - base)); }
            }
        }
        Ok::<_, String>(out)
    }).and_then(|r| r)
}

struct Script { stop_after: Option<u64>, drop_after: Option<u64>, upload_limit: u64, upload_rate: u64, fault_rate: u64, max_faults: u64, burst_max: u64, lockstep: bool }

fn session(rt: &tokio::runtime::Runtime, rng: &mut Rng, start: (u64, u64), full: u64, script: Script, with_stats: bool, system: bool) -> Vec<Value> {
    session_with(rt, rng, start, full, script, with_stats, system, None)
}

fn session_with(rt: &tokio::runtime::Runtime, rng: &mut Rng, start: (u64, u64), full: u64, script: Script, with_stats: bool, system: bool, short_len: Option<u64>) -> Vec<Value> {
    let log: Arc<Mutex<Vec<Value>>> = Arc::new(Mutex::new(Vec::new()));
    let seed = rng.next();
    rt.block_on(async {
        let sim = Sim::start().await;
        // every fourth session the uploader's clock is a day and a half AHEAD of this machine's: the poller's estimate of the
        // next chunk time lies in the future and it takes its sleep-until branch (virtual time) before every request
        let base = if seed % 4 == 3 { Utc.timestamp_opt(Utc::now().timestamp() + 129_600, 0).single().expect("future base") } else { Utc.with_ymd_and_hms(2024, 3, 1, 0, 0, 0).single().expect("base") };
        let world = Arc::new(Mutex::new(World { up: (0, 0), count: 0, volume_serial: 0, prefix_of: HashMap::new(), uploaded: HashMap::new(), base, system: if system { Some((crate::icd::Layouts::load(), Rng::new(seed ^ 0x5157))) } else { None }, next_id: 1, radials: HashMap::new(), short_len }));
        {
            let mut w = world.lock().expect("world");
            let mut s = sim.state.lock().expect("state");
            if start.1 > 0 {
                // `full` complete volumes behind the start volume, then chunks 1..seq of the start volume
                let mut vols: Vec<u64> = (1..=full).map(|j| ((start.0 + MAXVOL - 1 - j) % MAXVOL) + 1).collect();
                vols.reverse();
                for v in vols { for q in 1..=LASTSEQ { w.upload(&mut s, (v, q)); } }
                for q in 1..=start.1 { w.upload(&mut s, (start.0, q)); }
            }
        }
        {
            let w = world.lock().expect("world");
            let chunks: Vec<Vec<Vec<u64>>> = (1..=start.1).map(|q| w.radials.get(&(start.0, q)).map(|r| r.iter().map(|(e, i)| vec![*e as u64, *i]).collect()).unwrap_or_default()).collect();
            log.lock().expect("log").push(json!({"ev": "init", "vol": start.0, "seq": start.1, "full": if start.1 > 0 { full } else { 0 }, "chunks": chunks}));
        }
        let received: Arc<Mutex<Vec<(u64, u64, Vec<u8>)>>> = Arc::new(Mutex::new(Vec::new()));
        let (tx, rx): (Sender<(ChunkIdentifier, Chunk<'static>)>, Receiver<(ChunkIdentifier, Chunk<'static>)>) = channel();
        let (stop_tx, stop_rx) = channel::<bool>();
        let (stats_tx, stats_rx) = channel::<PollStats>();
        let rx_cell: Arc<Mutex<Option<Receiver<(ChunkIdentifier, Chunk<'static>)>>>> = Arc::new(Mutex::new(Some(rx)));
        let stats_cell: Arc<Mutex<Receiver<PollStats>>> = Arc::new(Mutex::new(stats_rx));

        // consumer logic, run at request boundaries and once more after the poller returned
        let drain = { let (log, world, rx_cell, received, stats_cell) = (log.clone(), world.clone(), rx_cell.clone(), received.clone(), stats_cell.clone()); move || -> u64 {
            let mut n = 0;
            if let Some(rx) = rx_cell.lock().expect("rx").as_ref() {
                for (id, chunk) in rx.try_iter() {
                    let w = world.lock().expect("world");
                    let vol = id.volume().as_number() as u64;
                    let (seq, data_ok, id_ok) = match w.uploaded.get(&(vol, id.name().to_string())) {
                        Some((bytes, lm, seq)) => (*seq, chunk.data() == bytes.as_slice(), id.site() == SITE && id.date_time() == Some(*lm)),
                        None => (id.sequence().unwrap_or(0) as u64, false, false),
                    };
                    let mut ev = json!({"ev": "deliver", "vol": vol, "seq": seq, "data_ok": data_ok, "id_ok": id_ok});
                    if w.system.is_some() {
                        match decode_chunk(&chunk) {
                            Ok(d) => ev["decoded"] = json!(d.iter().map(|(e, i)| vec![*e as i64, *i]).collect::<Vec<_>>()),
                            Err(e) => { ev["decoded"] = json!([[-1, -1]]); ev["decode_error"] = json!(e); }
                        }
                    }
                    log.lock().expect("log").push(ev);
                    if w.system.is_some() {
                        // a volume received completely, chunk 1..55 in sequence, is assembled by concatenation and scanned
                        let mut rcv = received.lock().expect("rcv");
                        rcv.push((vol, seq, chunk.data().to_vec()));
                        let n = rcv.len();
                        if seq == LASTSEQ && n >= LASTSEQ as usize && (0..LASTSEQ as usize).all(|k| rcv[n - LASTSEQ as usize + k].0 == vol && rcv[n - LASTSEQ as usize + k].1 == k as u64 + 1) {
                            let file: Vec<u8> = rcv[n - LASTSEQ as usize..].iter().flat_map(|c| c.2.clone()).collect();
                            let base_ms = (crate::scan::DATE as i64 - 1) * 86_400_000;
                            match guarded(|| nexrad_data::volume::File::new(file).scan()) {
                                Ok(Ok(scan)) => log.lock().expect("log").push(json!({"ev": "scan", "vol": vol, "vcp": scan.coverage_pattern_number(), "sweeps": scan.sweeps().iter().map(|s| json!({"el": s.elevation_number(), "ids": s.radials().iter().map(|r| r.collection_timestamp() - base_ms).collect::<Vec<_>>()})).collect::<Vec<_>>()})),
                                other => log.lock().expect("log").push(json!({"ev": "scan", "vol": vol, "vcp": -1, "sweeps": [], "error": format!("{:?}", other.map(|r| r.map(|_| ())))})),
                            }
                        }
                    }
                    n += 1;
                }
            }
            // statistics after the deliveries of this drain: the model appends the NewChunk statistic in the very action that hands the chunk over
            for st in stats_cell.lock().expect("stats").try_iter() {
                let (kind, calls) = match st { PollStats::LatestVolumeCalls(c) => ("latest", c), PollStats::NewVolumeCalls(c) => ("newvol", c), PollStats::NewChunk(nc) => ("chunk", nc.calls), PollStats::ChunkTimings(_) => ("timings", 0) };
                log.lock().expect("log").push(json!({"ev": "stat", "kind": kind, "calls": calls}));
            }
            n
        } };

        let handler_state = Arc::new(Mutex::new((0u64, false, false, 0u64, 0u64, Rng::new(seed), 0u64))); // delivered, stopped, dropped, uploads done, faults used, rng
        {
            let (log, world, rx_cell, hs, drain) = (log.clone(), world.clone(), rx_cell.clone(), handler_state.clone(), drain.clone());
            let stop_tx = stop_tx.clone();
            sim.set_handler(Some(Box::new(move |req: &Req, s: &mut SimState| {
                if req.is_list() && req.q("max-keys") == Some("1") { log.lock().expect("log").push(json!({"ev": "probe"})); return None; }
                let mut h = hs.lock().expect("hs");
                h.6 += 1;
                progress(|| format!("poll_chunks session, request #{} {}", h.6, req.raw_target));
                if h.6 > 5_000 {
                    // a poller that never stops asking: cut it off (every further request fails) and say so
                    if h.6 == 5_001 { log.lock().expect("log").push(json!({"ev": "runaway", "requests": h.6})); }
                    return Some(Resp::xml(500, "<Error><Code>Runaway</Code></Error>".into()));
                }
                h.0 += drain();
                if let Some(k) = script.stop_after { if h.0 >= k && !h.1 { h.1 = true; let _ = stop_tx.send(true); log.lock().expect("log").push(json!({"ev": "stop"})); } }
                if let Some(k) = script.drop_after { if h.0 >= k && !h.2 { h.2 = true; *rx_cell.lock().expect("rx") = None; log.lock().expect("log").push(json!({"ev": "drop"})); } }
                // the uploader makes 0..3 further chunks visible
                // lockstep uploader: the next chunk appears (usually) just when the poller asks for something that is not there yet
                let missing = if req.is_list() { let pfx = format!("{BUCKET}/{}", req.q("prefix").unwrap_or("")); !s.objects.keys().any(|k| k.starts_with(&pfx)) } else { !s.objects.contains_key(&format!("{BUCKET}/{}", req.bucket_key().1)) };
                let mut burst = if script.lockstep { if missing && h.5.below(100) < 80 { 1 } else { 0 } } else if h.5.below(100) < script.upload_rate { 1 + h.5.below(script.burst_max) } else { 0 };
                while burst > 0 && h.3 < script.upload_limit {
                    let mut w = world.lock().expect("world");
                    let nx = if w.up == (0, 0) { (1, 1) } else { match w.short_len { Some(n) if w.up.1 >= n => (if w.up.0 + 1 > MAXVOL { 1 } else { w.up.0 + 1 }, 1), _ => succ(w.up) } };
                    w.upload(s, nx);
                    let rads: Vec<Vec<u64>> = w.radials.get(&nx).map(|r| r.iter().map(|(e, i)| vec![*e as u64, *i]).collect()).unwrap_or_default();
                    log.lock().expect("log").push(json!({"ev": "upload", "vol": nx.0, "seq": nx.1, "rads": rads}));
                    h.3 += 1; burst -= 1;
                }
                if req.is_list() {
                    let prefix = req.q("prefix").unwrap_or("").to_string();
                    let vol = prefix.split('/').nth(1).and_then(|v| v.parse::<u64>().ok()).unwrap_or(0);
                    let max = req.q("max-keys").and_then(|m| m.parse().ok()).unwrap_or(1000);
                    let n = s.objects.keys().filter(|k| k.starts_with(&format!("{BUCKET}/{prefix}"))).count().min(max);
                    log.lock().expect("log").push(json!({"ev": "list", "vol": vol, "n": n}));
                    return Some(list_response(s, BUCKET, &prefix, max));
                }
                let (_, key) = req.bucket_key();
                let mut it = key.split('/');
                let (_site, vol, name) = (it.next().unwrap_or(""), it.next().and_then(|v| v.parse::<u64>().ok()).unwrap_or(0), it.next().unwrap_or("").to_string());
                let seq = name.split('-').nth(2).and_then(|q| q.parse::<u64>().ok()).unwrap_or(0);
                let exists = s.objects.contains_key(&format!("{BUCKET}/{key}"));
                let fault = exists && h.4 < script.max_faults && h.5.below(100) < script.fault_rate;
                // transient faults: 500, 404, or a transfer cut short (200 with the full Content-Length announced, connection
                // closed after part of the body) -- logged as status 599
                s.cut_body = None;
                let mut status = None;
                let resp = if fault {
                    h.4 += 1;
                    match h.5.below(3) {
                        0 => Resp::xml(500, "<Error><Code>InternalError</Code></Error>".into()),
                        1 => Resp::not_found(),
                        _ => { let r = get_response(s, BUCKET, &key); if r.body.is_empty() { Resp::not_found() } else { s.cut_body = Some(h.5.below(r.body.len() as u64) as usize); status = Some(599); r } }
                    }
                } else { get_response(s, BUCKET, &key) };
                log.lock().expect("log").push(json!({"ev": "get", "vol": vol, "seq": seq, "status": status.unwrap_or(resp.status), "fault": fault}));
                Some(resp)
            })));
        }
        let r = guarded_async(poll_chunks(SITE, tx, if with_stats { Some(stats_tx) } else { drop(stats_tx); None }, stop_rx)).await;
        let _ = drain();
        match r {
            Ok(r) => log.lock().expect("log").push(json!({"ev": "return", "ok": r.is_ok(), "err": r.as_ref().err().map(|e| format!("{e:?}")).unwrap_or_default()})),
            // no reading of Poll.tla has a panic: the event is rejected wherever it stands
            Err(msg) => log.lock().expect("log").push(json!({"ev": "panic", "message": msg})),
        }
        sim.set_handler(None);
    });
    let out = log.lock().expect("log").clone();
    out
}

/// Composition sessions (System.tla): long sessions from the start of a volume so that whole volumes are received.
fn record_system(args: &Args) {
    let mut rng = Rng::new(args.seed);
    let mut res = Results::create(args.res.as_deref().unwrap_or(""));
    let dir = args.out.as_deref().unwrap_or("");
    let sessions = if args.thorough { 10 } else { 3 };
    let mut index = Vec::new();
    for k in 0..sessions {
        let rt = runtime();
        let start = match k % 3 { 0 => (998u64, 54u64), 1 => (999, 1), _ => (1 + rng.below(999), 1 + rng.below(55)) };
        let script = Script { stop_after: Some(if k % 3 == 2 { rng.range(5, 60) } else { 130 }), drop_after: None, upload_limit: 100_000, upload_rate: if k % 3 == 2 { 75 } else { 40 }, fault_rate: 4, max_faults: 1_000, burst_max: if k % 3 == 2 { 3 } else { 1 }, lockstep: k % 3 != 2 };
        let events = session(&rt, &mut rng, start, 0, script, false, true);
        let (deliveries, scans) = (events.iter().filter(|e| e["ev"] == json!("deliver")).count(), events.iter().filter(|e| e["ev"] == json!("scan")).count());
        res.case(fnv(format!("sys{}{}", events.len(), k).as_bytes()), deliveries >= 2);
        let path = format!("{dir}.{k}");
        let mut tr = TraceOut::create(&path);
        for e in &events { tr.ev(e.clone()); }
        tr.finish();
        index.push(json!({"trace": path, "events": events.len(), "deliveries": deliveries, "volume_scans": scans, "start": [start.0, start.1], "returned": events.last()}));
        if k == 0 { res.sample(json!({"session": index[0], "a_deliver_event": events.iter().find(|e| e["ev"] == json!("deliver") && e["decoded"].as_array().map(|a| !a.is_empty()).unwrap_or(false))})); }
    }
    let mut tr = TraceOut::create(dir);
    for i in index { tr.ev(i); }
    tr.finish();
    res.finish();
}

/// The two hazards outside the listed properties (PollStale.tla, PollShort.tla) replayed against the real poller.
/// Purely informational: prints one JSON line per scenario.
fn record_hazards(args: &Args) {
    let mut rng = Rng::new(args.seed);
    let mut tr = TraceOut::create(args.out.as_deref().unwrap_or(""));
    let mut res = Results::create(args.res.as_deref().unwrap_or(""));
    // (1) full rotation: the directory ahead of the newest volume holds the chunks written there 999 volumes ago
    let rt = runtime();
    progress(|| "hazard scenario: stale directory ahead".to_string());
    let ev = session(&rt, &mut rng, (500, 55), 998, Script { stop_after: Some(3), drop_after: None, upload_limit: 0, upload_rate: 0, fault_rate: 0, max_faults: 0, burst_max: 1, lockstep: false }, false, false);
    let deliveries: Vec<(u64, u64)> = ev.iter().filter(|e| e["ev"] == json!("deliver")).map(|e| (e["vol"].as_u64().unwrap_or(0), e["seq"].as_u64().unwrap_or(0))).collect();
    let stale = deliveries.iter().filter(|d| d.0 != 500).count();
    res.case(1, true);
    tr.ev(json!({"hazard": "stale_directory_ahead", "spec": "PollStale.tla", "reproduced_on_real_code": stale > 0, "deliveries": deliveries, "note": "chunks of volumes 501.. are the previous rotation's (oldest upload times in the bucket); nothing was uploaded during the session"}));
    // (2) volumes that end (type letter E) at chunk 40
    let rt = runtime();
    progress(|| "hazard scenario: short volume".to_string());
    let ev = session_with(&rt, &mut rng, (10, 38), 1, Script { stop_after: None, drop_after: None, upload_limit: 60, upload_rate: 100, fault_rate: 0, max_faults: 0, burst_max: 1, lockstep: false }, false, false, Some(40));
    let deliveries: Vec<(u64, u64)> = ev.iter().filter(|e| e["ev"] == json!("deliver")).map(|e| (e["vol"].as_u64().unwrap_or(0), e["seq"].as_u64().unwrap_or(0))).collect();
    let last_deliver = ev.iter().rposition(|e| e["ev"] == json!("deliver")).unwrap_or(0);
    let uploads_after = ev.iter().skip(last_deliver).filter(|e| e["ev"] == json!("upload")).count();
    let ret = ev.last().cloned().unwrap_or(json!(null));
    res.case(2, true);
    if std::env::var("VERIF_DEBUG").is_ok() { for e in ev.iter().filter(|e| e["ev"] != json!("probe")) { eprintln!("{e}"); } }
    tr.ev(json!({"hazard": "volume_shorter_than_55_chunks", "spec": "PollShort.tla", "reproduced_on_real_code": ret["ok"] == json!(false) && uploads_after > 0 && deliveries.last().map(|d| d.0 == 10 && d.1 < 41).unwrap_or(false),
                 "deliveries": deliveries, "uploads_while_waiting": uploads_after, "returned": ret}));
    res.sample(json!({"scenarios": ["stale_directory_ahead", "volume_shorter_than_55_chunks"]}));
    tr.finish();
    res.finish();
}

pub fn run(args: &Args) {
    if args.mode == "replay" { return replay(args); }
    if args.mode == "record-hazards" { return record_hazards(args); }
    if args.mode == "record-system" { return record_system(args); }
    if args.mode != "record" { eprintln!("poll: unknown mode"); std::process::exit(2); }
    let mut rng = Rng::new(args.seed);
    let mut res = Results::create(args.res.as_deref().unwrap_or(""));
    let dir = args.out.as_deref().unwrap_or("");
    let sessions = if args.thorough { 40 } else { 8 };
    let mut index = Vec::new();
    for k in 0..sessions {
        let rt = runtime();
        // the first sessions pin the boundary starts (newest volume 999 / 998 / 1 / 997, a nearly full rotation
        // behind volume 5 so that sibling prefixes 5x / 5xx exist); later ones are seeded
        let start_vol = if k < 6 { [999u64, 998, 1, 997, 2, 5][k as usize] } else { *rng.pick(&[997u64, 998, 999, 1, 2, 500, 57]) };
        let start_seq = match k % 6 { 0 => 7, 1 => 54, 2 => 1, 3 => 2, 5 => 3, _ => 1 + rng.below(55) };
        let full = if k % 6 == 5 { 520 } else { rng.below(3) };
        let target = if args.thorough { rng.range(60, 150) } else { rng.range(8, 70) };
        let script = match k % 5 {
            0 | 1 => Script { stop_after: Some(target), drop_after: None, upload_limit: 100_000, upload_rate: 70, fault_rate: 6, max_faults: 1_000, burst_max: 3, lockstep: false },
            2 => Script { stop_after: None, drop_after: Some(rng.below(target)), upload_limit: 100_000, upload_rate: 80, fault_rate: 3, max_faults: 1_000, burst_max: 3, lockstep: false },
            3 => Script { stop_after: None, drop_after: None, upload_limit: rng.below(target), upload_rate: 90, fault_rate: 0, max_faults: 0, burst_max: 3, lockstep: false },       // the uploader stops: retry budget runs out
            // (the first of these has the stop signal pending before anything was delivered: only the initial chunk may follow)
            _ => Script { stop_after: Some(if k == 4 { 0 } else { rng.below(3) }), drop_after: None, upload_limit: 100_000, upload_rate: 40, fault_rate: 12, max_faults: 1_000, burst_max: 3, lockstep: false },
        };
        let (start, full) = if k == 7 { ((0, 0), 0) } else { ((start_vol, start_seq), full) };
        progress(|| format!("poll_chunks session {k} starting at {:?}", start));
        let events = session(&rt, &mut rng, start, full, script, k % 2 == 0, false);
        let deliveries = events.iter().filter(|e| e["ev"] == json!("deliver")).count();
        res.case(fnv(format!("{:?}", events.len()).as_bytes()) ^ k as u64, deliveries >= 2);
        let path = format!("{dir}.{k}");
        let mut tr = TraceOut::create(&path);
        for e in &events { tr.ev(e.clone()); }
        tr.finish();
        index.push(json!({"trace": path, "events": events.len(), "deliveries": deliveries, "start": [start.0, start.1], "returned": events.last(), "with_stats": k % 2 == 0}));
        if k == 0 { res.sample(json!({"session": index[0], "first_events": events.iter().filter(|e| e["ev"] != json!("probe")).take(12).collect::<Vec<_>>()})); }
    }
    let mut tr = TraceOut::create(dir);
    for i in index { tr.ev(i); }
    tr.finish();
    res.finish();
}

// ---------------------------------------------------------------------------------------------
// Mechanism G: a script printed by TLC (Gen_Poll.tla) is turned into simulator behaviour keyed on
// request counts and the REAL poll_chunks must deliver exactly the chunks, and return Ok/Err, as the
// specification's behaviour does.

#[derive(Default, Clone)]
struct ReqPlan { uploads: u64, fault: bool, stop: bool, drop: bool }

/// Environment actions attached to the k-th request of the poller (0-based), derived from the token script.
fn plan_of(tokens: &[String]) -> Vec<ReqPlan> {
    let req_pos: Vec<usize> = tokens.iter().enumerate().filter(|(_, t)| *t == "R" || *t == "F").map(|(i, _)| i).collect();
    let mut plan: Vec<ReqPlan> = req_pos.iter().map(|&i| ReqPlan { uploads: 0, fault: tokens[i] == "F", stop: false, drop: false }).collect();
    let req_index_before = |pos: usize| -> Option<usize> { req_pos.iter().rposition(|&p| p < pos) };
    let req_index_after = |pos: usize| -> Option<usize> { req_pos.iter().position(|&p| p > pos) };
    for (i, t) in tokens.iter().enumerate() {
        match t.as_str() {
            // an upload is observed by the next request
            "U" => if let Some(k) = req_index_after(i) { plan[k].uploads += 1; },
            // the stop signal is read by the next loop-top test: send it before serving the last request that precedes that test
            "S" => {
                let k = match tokens.iter().enumerate().skip(i).find(|(_, x)| *x == "T").map(|(p, _)| p) { Some(pt) => req_index_before(pt), None => req_index_after(i) };
                if let Some(k) = k { plan[k].stop = true; }
            }
            // a dropped receiver is noticed by the next send
            "D" => {
                let k = match tokens.iter().enumerate().skip(i).find(|(_, x)| *x == "V" || *x == "X").map(|(p, _)| p) { Some(pv) => req_index_before(pv), None => req_index_after(i) };
                if let Some(k) = k { plan[k].drop = true; }
            }
            _ => {}
        }
    }
    plan
}

fn scripted_session(rt: &tokio::runtime::Runtime, start: (u64, u64), full: u64, plan: Vec<ReqPlan>) -> (Vec<(u64, u64, bool)>, bool, String, u64, Vec<Value>) {
    let deliveries: Arc<Mutex<Vec<(u64, u64, bool)>>> = Arc::new(Mutex::new(Vec::new()));
    // property-level recording of the session (same vocabulary as the projected recordings of `record`)
    let log: Arc<Mutex<Vec<Value>>> = Arc::new(Mutex::new(vec![json!({"ev": "init", "vol": start.0, "seq": start.1, "full": full, "chunks": []})]));
    let extra_requests = Arc::new(Mutex::new(0u64));
    let mut outcome = (false, String::new());
    rt.block_on(async {
        let sim = Sim::start().await;
        let base = Utc.with_ymd_and_hms(2024, 3, 1, 0, 0, 0).single().expect("base");
        let world = Arc::new(Mutex::new(World { up: (0, 0), count: 0, volume_serial: 0, prefix_of: HashMap::new(), uploaded: HashMap::new(), base, system: None, next_id: 1, radials: HashMap::new(), short_len: None }));
        {
            let mut w = world.lock().expect("world");
            let mut s = sim.state.lock().expect("state");
            let mut vols: Vec<u64> = (1..=full).map(|j| ((start.0 + MAXVOL - 1 - j) % MAXVOL) + 1).collect();
            vols.reverse();
            for v in vols { for q in 1..=LASTSEQ { w.upload(&mut s, (v, q)); } }
            for q in 1..=start.1 { w.upload(&mut s, (start.0, q)); }
        }
        let (tx, rx): (Sender<(ChunkIdentifier, Chunk<'static>)>, Receiver<(ChunkIdentifier, Chunk<'static>)>) = channel();
        let (stop_tx, stop_rx) = channel::<bool>();
        let rx_cell: Arc<Mutex<Option<Receiver<(ChunkIdentifier, Chunk<'static>)>>>> = Arc::new(Mutex::new(Some(rx)));
        let drain = { let (deliveries, world, rx_cell, log) = (deliveries.clone(), world.clone(), rx_cell.clone(), log.clone()); move || {
            if let Some(rx) = rx_cell.lock().expect("rx").as_ref() {
                for (id, chunk) in rx.try_iter() {
                    let w = world.lock().expect("world");
                    let vol = id.volume().as_number() as u64;
                    let (seq, ok) = match w.uploaded.get(&(vol, id.name().to_string())) { Some((bytes, lm, seq)) => (*seq, chunk.data() == bytes.as_slice() && id.site() == SITE && id.date_time() == Some(*lm)), None => (id.sequence().unwrap_or(0) as u64, false) };
                    deliveries.lock().expect("d").push((vol, seq, ok));
                    log.lock().expect("log").push(json!({"ev": "deliver", "vol": vol, "seq": seq, "data_ok": ok, "id_ok": ok}));
                }
            }
        } };
        {
            let (world, rx_cell, drain, extra, log) = (world.clone(), rx_cell.clone(), drain.clone(), extra_requests.clone(), log.clone());
            let counter = Arc::new(Mutex::new(0usize));
            sim.set_handler(Some(Box::new(move |req: &Req, s: &mut SimState| {
                if req.is_list() && req.q("max-keys") == Some("1") { return None; }
                drain();
                let k = { let mut c = counter.lock().expect("c"); *c += 1; *c - 1 };
                let p = match plan.get(k) { Some(p) => p.clone(), None => { *extra.lock().expect("e") += 1; ReqPlan::default() } };
                if k > 5_000 { if k == 5_001 { log.lock().expect("log").push(json!({"ev": "runaway", "requests": k})); } return Some(Resp::xml(500, "<Error><Code>Runaway</Code></Error>".into())); }
                if p.stop { let _ = stop_tx.send(true); log.lock().expect("log").push(json!({"ev": "stop"})); }
                if p.drop { *rx_cell.lock().expect("rx") = None; log.lock().expect("log").push(json!({"ev": "drop"})); }
                for _ in 0..p.uploads { let mut w = world.lock().expect("world"); let nx = if w.up == (0, 0) { (1, 1) } else { succ(w.up) }; w.upload(s, nx); log.lock().expect("log").push(json!({"ev": "upload", "vol": nx.0, "seq": nx.1, "rads": []})); }
                let fault = p.fault && !req.is_list();
                // a fault tick only counts as one when the object was there (otherwise the miss is the bucket's answer)
                let exists = req.is_list() || s.objects.contains_key(&format!("{BUCKET}/{}", req.bucket_key().1));
                log.lock().expect("log").push(json!({"ev": "req", "fault": fault && exists}));
                if fault { return Some(Resp::xml(500, "<Error><Code>InternalError</Code></Error>".into())); }
                None
            })));
        }
        let r = guarded_async(poll_chunks(SITE, tx, None, stop_rx)).await;
        drain();
        match r {
            Ok(r) => { outcome = (r.is_ok(), r.err().map(|e| format!("{e:?}")).unwrap_or_default()); log.lock().expect("log").push(json!({"ev": "return", "ok": outcome.0, "err": outcome.1.clone()})); }
            Err(msg) => { outcome = (false, format!("PANIC {msg}")); log.lock().expect("log").push(json!({"ev": "panic", "message": msg})); }
        }
        sim.set_handler(None);
    });
    let d = deliveries.lock().expect("d").clone();
    let e = *extra_requests.lock().expect("e");
    let l = log.lock().expect("log").clone();
    (d, outcome.0, outcome.1, e, l)
}

fn replay(args: &Args) {
    let vectors = read_ndjson(args.input.as_deref().unwrap_or(""));
    let mut res = Results::create(args.out.as_deref().unwrap_or(""));
    for (vi, v) in vectors.iter().enumerate() {
        let tokens: Vec<String> = v["script"].as_array().map(|a| a.iter().map(|t| t.as_str().unwrap_or("").to_string()).collect()).unwrap_or_default();
        let start = (v["start"][0].as_u64().unwrap_or(1), v["start"][1].as_u64().unwrap_or(1));
        let full = v["start"][2].as_u64().unwrap_or(0);
        let want: Vec<(u64, u64)> = v["hist"].as_array().map(|a| a.iter().map(|h| (h[0].as_u64().unwrap_or(0), h[1].as_u64().unwrap_or(0))).collect()).unwrap_or_default();
        res.case(hash_value(v), want.len() >= 2);
        let rt = runtime();
        progress(|| format!("poll_chunks scripted session {vi} {}", tokens.join("")));
        let (got, ok, err, extra, events) = scripted_session(&rt, start, full, plan_of(&tokens));
        // A disagreement with the script is not yet a verdict: the script is keyed on the request structure of
        // Poll.tla, which the property does not fix.  The session's own recording is written out and TLC decides
        // (property reading of Trace_Poll) whether what was OBSERVED violates C18; otherwise it is drift.
        let pending = |res: &mut Results, sig: &str, detail: String, small: &Value| {
            let path = format!("{}.script{}.proj", args.out.as_deref().unwrap_or("replay"), vi);
            let mut tr = TraceOut::create(&path);
            for e in &events { tr.ev(e.clone()); }
            tr.finish();
            let mut case = small.clone();
            case["trace"] = json!(path);
            res.mismatch("pending", sig, detail, case);
        };
        let small = json!({"start": v["start"], "script": tokens.join(""), "expected": {"deliveries": v["hist"], "result": v["result"], "why": v["why"]}, "got": {"deliveries": got.iter().map(|d| json!([d.0, d.1])).collect::<Vec<_>>(), "ok": ok, "err": err}});
        let got_pos: Vec<(u64, u64)> = got.iter().map(|d| (d.0, d.1)).collect();
        if got_pos != want {
            let sig = if got_pos.len() > want.len() && got_pos[..want.len()] == want[..] { "C18/script/extra_delivery" } else if got_pos.len() < want.len() && want[..got_pos.len()] == got_pos[..] { "C18/script/missing_delivery" } else { "C18/script/wrong_delivery" };
            pending(&mut res, sig, format!("expected {:?} got {:?}", want, got_pos), &small);
        } else if ok != (v["result"] == json!("ok")) || err.starts_with("PANIC") {
            pending(&mut res, "C18/script/outcome", format!("expected {} ({}) got ok={} {}", v["result"], v["why"], ok, err), &small);
        }
        if got.iter().any(|d| !d.2) { res.mismatch("violation", "C18/script/payload_identity", "a delivered chunk differs from the uploaded object or its label".into(), small.clone()); }
        if extra > 0 { res.mismatch("drift", "C18/script/extra_requests", format!("{extra} requests beyond the script"), small.clone()); }
        if want.len() == 3 { res.sample(small); }
    }
    res.finish();
}
