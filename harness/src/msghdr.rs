//! C10: the 28-byte message header against MsgHeader.tla.
use crate::common::*;
use crate::drd::bytes_of;
use crate::icd::*;
use nexrad_decode::messages::decode_message_header;
use serde_json::json;

fn header_bytes(size: u16, cnt: u16, num: u16, ty: u8, ch: u8) -> Vec<u8> {
    let mut b = vec![0u8; 28];
    b[12..14].copy_from_slice(&size.to_be_bytes());
    b[14] = ch;
    b[15] = ty;
    b[16..18].copy_from_slice(&0x0102u16.to_be_bytes());
    b[18..20].copy_from_slice(&19000u16.to_be_bytes());
    b[20..24].copy_from_slice(&1234567u32.to_be_bytes());
    b[24..26].copy_from_slice(&cnt.to_be_bytes());
    b[26..28].copy_from_slice(&num.to_be_bytes());
    b
}

pub fn run(args: &Args) {
    match args.mode.as_str() {
        "replay" => {
            let vectors = read_ndjson(args.input.as_deref().unwrap_or(""));
            let mut res = Results::create(args.out.as_deref().unwrap_or(""));
            for v in &vectors {
                let bytes = bytes_of(&v["bytes"]);
                res.case(fnv(&bytes), true);
                let small = json!({"bytes": v["bytes"]});
                let h = match if dribbled(&bytes) { decode_message_header(&mut Dribble::new(&bytes)) } else { decode_message_header(&mut bytes.as_slice()) } {
                    Ok(h) => h,
                    Err(e) => { res.mismatch("violation", "C10/decode/error", format!("{e:?}"), small); continue; }
                };
                let got = msg_header(&h);
                for (k, want) in fields_from_json(&v["fields"]) {
                    if let Some(g) = got.get(&k) { if *g != want { res.mismatch("violation", &format!("C10/field/{k}"), format!("expected {:?} got {:?}", want, g), small.clone()); } }
                }
                match guarded(|| format!("{:?}", h.message_type())) {
                    Ok(t) => if Some(t.as_str()) != v["type_name"].as_str() { res.mismatch("violation", "C10/message_type", format!("code {} expected {} got {}", h.message_type, v["type_name"], t), small.clone()); },
                    Err(p) => res.mismatch("violation", "C10/message_type/panic", p, small.clone()),
                }
                match guarded(|| format!("{:?}", h.rda_redundant_channel())) {
                    Ok(t) => if Some(t.as_str()) != v["channel_name"].as_str() { res.mismatch("violation", "C10/redundant_channel", format!("code {} expected {} got {}", h.redundant_channel, v["channel_name"], t), small.clone()); },
                    Err(p) => res.mismatch("violation", "C10/redundant_channel/panic", p, small.clone()),
                }
                if h.message_type == 31 && h.redundant_channel == 8 { res.sample(json!({"bytes": v["bytes"], "type": v["type_name"], "channel": v["channel_name"]})); }
            }
            res.finish();
        }
        "record" => {
            let mut rng = Rng::new(args.seed);
            let mut tr = TraceOut::create(args.out.as_deref().unwrap_or(""));
            let mut res = Results::create(args.res.as_deref().unwrap_or(""));
            let edge: [u16; 6] = [0, 1, 0x7FFF, 0x8000, 0xFFFE, 0xFFFF];
            let mut pairs: Vec<(u16, u16)> = Vec::new();
            if args.thorough { for a in edge.iter().take(4) { for b in edge.iter().take(4) { pairs.push((*a, *b)); } } } else { pairs.push((1, 1)); pairs.push((0x8000, 0xFFFF)); pairs.push((0, 7)); }
            // the size semantics do not depend on the type code: every type code meets every kind of size
            let mut emit = |size: u16, cnt: u16, num: u16, ty: u8, tr: &mut TraceOut, res: &mut Results| {
                let b = header_bytes(size, cnt, num, ty, 8);
                res.case(((ty as u64) << 48) | ((size as u64) << 32) | ((cnt as u64) << 16) | num as u64, true);
                let h = match decode_message_header(&mut b.as_slice()) { Ok(h) => h, Err(_) => return };
                let r = guarded(|| {
                    let bytes = h.message_size_bytes();
                    let uom = h.message_size().get::<uom::si::information::byte>() as u64;
                    let ssz = h.segment_size().map(|s| s.get::<uom::si::information::byte>() as i64).unwrap_or(-1);
                    (h.segmented(), h.segment_count().map(|x| x as i64).unwrap_or(-1), h.segment_number().map(|x| x as i64).unwrap_or(-1), bytes, uom, ssz)
                });
                match r {
                    Ok((seg, sc, sn, bytes, uom, ssz)) => tr.ev(json!({"size": size, "cnt": cnt, "num": num, "segmented": seg, "segcnt": sc, "segnum": sn,
                        "bhi": bytes >> 16, "blo": bytes & 0xFFFF, "uhi": (uom >> 16) & 0xFFFF_FFFF, "ulo": uom & 0xFFFF, "ssz": ssz, "panic": false})),
                    Err(_) => tr.ev(json!({"size": size, "cnt": cnt, "num": num, "segmented": false, "segcnt": -1, "segnum": -1, "bhi": 0, "blo": 0, "uhi": 0, "ulo": 0, "ssz": -1, "panic": true})),
                }
            };
            for size in 0..=65535u16 { for (j, (c, n)) in pairs.iter().enumerate() { emit(size, *c, *n, if j == 0 { 31 } else { (size as usize * 7 + j * 37) as u8 }, &mut tr, &mut res); } }
            let seeded = if args.thorough { 65536 } else { 16384 };
            for k in 0..seeded { let (c, n) = (rng.next() as u16, rng.next() as u16); emit(0xFFFF, c, n, if k % 2 == 0 { 31 } else { rng.next() as u8 }, &mut tr, &mut res); }
            for c in edge { for n in edge { emit(0xFFFF, c, n, 31, &mut tr, &mut res); emit(0xFFFE, c, n, 31, &mut tr, &mut res); } }
            for ty in 0..=255u8 { for size in [0xFFFFu16, 0xFFFE, 0, 1208] { emit(size, 2, 3, ty, &mut tr, &mut res); emit(size, 0x8000, 0xFFFF, ty, &mut tr, &mut res); } }
            res.sample(json!({"domain": "all 65,536 size values x (count, number) pairs; seeded pairs with size = 0xFFFF"}));
            tr.finish();
            res.finish();
        }
        m => { eprintln!("msghdr: unknown mode {m}"); std::process::exit(2) }
    }
}
