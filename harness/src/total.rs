//! C04: every decode entry point on arbitrary bytes (panic / time / peak allocation observed from outside).
use crate::common::*;
use crate::drd::{build_message, bytes_of, random_block, Block};
use crate::icd::*;
use nexrad_decode::messages::clutter_filter_map::decode_clutter_filter_map;
use nexrad_decode::messages::digital_radar_data::decode_digital_radar_data;
use nexrad_decode::messages::rda_status_data::decode_rda_status_message;
use nexrad_decode::messages::volume_coverage_pattern::decode_volume_coverage_pattern;
use nexrad_decode::messages::{decode_message_contents, decode_message_header, decode_messages, MessageContents, MessageType};
use serde_json::{json, Value};
use std::io::Cursor;
use std::sync::atomic::{AtomicUsize, Ordering};

pub static CURRENT: AtomicUsize = AtomicUsize::new(0);
pub static PEAK: AtomicUsize = AtomicUsize::new(0);

/// Counting allocator installed as the global allocator in main.rs.
pub struct Counting;
unsafe impl std::alloc::GlobalAlloc for Counting {
    unsafe fn alloc(&self, l: std::alloc::Layout) -> *mut u8 {
        let p = std::alloc::System.alloc(l);
        if !p.is_null() { let c = CURRENT.fetch_add(l.size(), Ordering::Relaxed) + l.size(); PEAK.fetch_max(c, Ordering::Relaxed); }
        p
    }
    unsafe fn dealloc(&self, p: *mut u8, l: std::alloc::Layout) { CURRENT.fetch_sub(l.size(), Ordering::Relaxed); std::alloc::System.dealloc(p, l) }
    unsafe fn realloc(&self, p: *mut u8, l: std::alloc::Layout, new: usize) -> *mut u8 {
        let q = std::alloc::System.realloc(p, l, new);
        if !q.is_null() { if new >= l.size() { let c = CURRENT.fetch_add(new - l.size(), Ordering::Relaxed) + (new - l.size()); PEAK.fetch_max(c, Ordering::Relaxed); } else { CURRENT.fetch_sub(l.size() - new, Ordering::Relaxed); } }
        q
    }
}

/// Runs f, returning (outcome, peak bytes above baseline, milliseconds).
fn measured<T, E>(f: impl FnOnce() -> Result<T, E>) -> (&'static str, usize, u64) {
    let base = CURRENT.load(Ordering::Relaxed);
    PEAK.store(base, Ordering::Relaxed);
    let t0 = std::time::Instant::now();
    let r = guarded(f);
    let ms = t0.elapsed().as_millis() as u64;
    let peak = PEAK.load(Ordering::Relaxed).saturating_sub(base);
    (match r { Ok(Ok(_)) => "ok", Ok(Err(_)) => "err", Err(_) => "panic" }, peak, ms)
}

fn type_of(code: u8) -> MessageType {
    let mut b = vec![0u8; 28];
    b[15] = code;
    decode_message_header(&mut b.as_slice()).expect("header").message_type()
}

/// Every entry point of the decode crate on `data`; one event per entry.
fn all_entries(class: &str, data: &[u8], model: Option<&str>, tr: &mut TraceOut, res: &mut Results) {
    let mut ev = |entry: &str, o: (&'static str, usize, u64), with_model: bool| {
        let mut e = json!({"entry": entry, "class": class, "len": data.len(), "outcome": if o.2 > 20_000 { "hang" } else { o.0 }, "peak": o.1, "ms": o.2});
        if with_model { if let Some(m) = model { e["model"] = json!(m); } }
        tr.ev(e);
    };
    res.case(fnv(data) ^ fnv(class.as_bytes()), !data.is_empty());
    progress(|| format!("decode entry points on class {} ({} bytes): {:?}", class, data.len(), &data[..data.len().min(96)]));
    ev("decode_digital_radar_data", measured(|| decode_digital_radar_data(&mut Cursor::new(data)).and_then(|m| { let a = m.radial(); let b = m.clone().into_radial(); let _ = (a.is_ok(), b.is_ok()); Ok::<_, nexrad_decode::result::Error>(()) })), true);
    ev("decode_messages", measured(|| decode_messages(&mut Cursor::new(data)).map(|ms| { for m in &ms { if let MessageContents::DigitalRadarData(d) = m.contents() { let _ = d.radial().is_ok(); } } ms.len() })), false);
    ev("decode_message_header", measured(|| decode_message_header(&mut &data[..])), false);
    ev("decode_rda_status_message", measured(|| decode_rda_status_message(&mut &data[..])), false);
    ev("decode_volume_coverage_pattern", measured(|| decode_volume_coverage_pattern(&mut &data[..])), false);
    ev("decode_clutter_filter_map", measured(|| decode_clutter_filter_map(&mut &data[..])), false);
    for code in [1u8, 2, 5, 15, 18, 31, 0, 255] {
        let ty = type_of(code);
        ev(&format!("decode_message_contents_{code}"), measured(|| decode_message_contents(&mut Cursor::new(data), ty)), false);
    }
    // the same bytes as the body of a type-31 message inside a stream (28-byte header in front)
    let mut framed = crate::frames::msg_header_bytes(31, 1, 0xFFFF);
    framed.extend_from_slice(data);
    ev("decode_messages_framed31", measured(|| decode_messages(&mut Cursor::new(&framed)).map(|m| m.len())), false);
}

pub fn run(args: &Args) {
    if args.mode != "record" { eprintln!("total: only record"); std::process::exit(2); }
    let l = Layouts::load();
    let mut rng = Rng::new(args.seed);
    let mut tr = TraceOut::create(args.out.as_deref().unwrap_or(""));
    let mut res = Results::create(args.res.as_deref().unwrap_or(""));
    // (1) the specification's fault classes (vectors from MC_Total via --in)
    if let Some(p) = args.input.as_deref() {
        for v in read_ndjson(p) {
            let bytes = bytes_of(&v["bytes"]);
            all_entries(&format!("spec:{}", v["class"].as_str().unwrap_or("")), &bytes, v["model"].as_str(), &mut tr, &mut res);
        }
    }
    // (2) field-directed extremes for the count-driven decoders
    for n in [0u16, 51, 52, 255, 65535] { for avail in [8usize, 22, 68, 2404] { let mut b = rng.bytes(avail); b[6..8].copy_from_slice(&n.to_be_bytes()); all_entries("vcp_cut_count", &b, None, &mut tr, &mut res); } }
    for n in [0u16, 1, 255, 256, 65535] { for avail in [6usize, 8, 10, 2404, 6 + 360 * 2] { let mut b = vec![0u8; avail]; b[4..6].copy_from_slice(&n.to_be_bytes()); if avail >= 8 { b[6..8].copy_from_slice(&65535u16.to_be_bytes()); } all_entries("cfm_counts", &b, None, &mut tr, &mut res); } }
    // (2b) message-header size fields at their extremes in front of every body kind (class "size")
    for ty in [31u8, 2, 5, 15, 0] {
        for size in [0u16, 1, 0x7FFF, 0x8000, 0xFFFF] {
            for (cnt, num) in [(0u16, 0u16), (1, 1), (0x2000, 0), (0xFFFF, 0xFFFF)] {
                let mut h = crate::frames::msg_header_bytes(ty, 1, size);
                h[24..26].copy_from_slice(&cnt.to_be_bytes());
                h[26..28].copy_from_slice(&num.to_be_bytes());
                for body in [0usize, 32, 2404] { let mut b = h.clone(); b.extend_from_slice(&vec![0u8; body]); all_entries("msg_header_size_extremes", &b, None, &mut tr, &mut res); }
            }
        }
    }
    // (3) a valid stream: every prefix (stride in quick), bit/byte mutations
    let blocks: Vec<Block> = ["VOL", "ELV", "RAD", "REF", "VEL", "PHI"].iter().map(|p| random_block(&l, &mut rng, p, 12, if *p == "PHI" { 16 } else { 8 }, 0)).collect();
    let hdr = l.get("drd_header").random(&mut rng);
    let drd = build_message(&l, &hdr, &blocks, &[0, 1, 2, 3, 4, 5]);
    let mut stream = crate::frames::msg_header_bytes(31, 1, 0xFFFF);
    stream.extend_from_slice(&drd);
    let mut status = crate::frames::msg_header_bytes(2, 2, 1208); status.extend_from_slice(&rng.bytes(2404));
    stream.extend_from_slice(&status);
    stream.extend_from_slice(&crate::frames::msg_header_bytes(31, 3, 0xFFFF)); stream.extend_from_slice(&drd);
    let stride = if args.thorough { 1 } else { 11 };
    let mut c = 0;
    while c <= stream.len() { all_entries("prefix_of_valid_stream", &stream[..c], None, &mut tr, &mut res); all_entries("prefix_of_type31", &drd[..c.min(drd.len())], None, &mut tr, &mut res); c += stride; }
    for _ in 0..(if args.thorough { 6000 } else { 700 }) {
        let mut v = if rng.chance(1, 2) { drd.clone() } else { stream.clone() };
        for _ in 0..(1 + rng.below(3)) { let at = rng.below(v.len().min(400) as u64) as usize; if rng.chance(1, 2) { v[at] ^= 1 << rng.below(8); } else { v[at] = *rng.pick(&[0u8, 255, 128, 1, 16]); } }
        all_entries("mutation", &v, None, &mut tr, &mut res);
    }
    // (4) uniformly random bytes
    for _ in 0..(if args.thorough { 25_000 } else { 1_200 }) { let cap = if rng.chance(1, 10) { 3000 } else { 200 }; let n = rng.below(cap) as usize; let v = rng.bytes(n); all_entries("random", &v, None, &mut tr, &mut res); }
    res.sample(json!({"entries": 16, "classes": ["spec fault classes (MC_Total)", "vcp_cut_count", "cfm_counts", "prefix_of_valid_stream", "mutation", "random"]}));
    tr.finish();
    res.finish();
}

#[allow(dead_code)]
pub fn unused(_: &Value) {}
