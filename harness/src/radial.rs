//! C07: radial model mapping and gate-value conversion against Radial.tla.
use crate::common::*;
use crate::drd::{build_message, bytes_of, random_block, Block};
use crate::icd::*;
use nexrad_decode::messages::digital_radar_data::{decode_digital_radar_data, GenericDataBlock, Message, ScaledMomentValue};
use nexrad_model::data::{MomentData, MomentValue, Radial};
use serde_json::{json, Map, Value};
use std::io::Cursor;

const MOMENTS: [(&str, &str); 7] = [("REF", "reflectivity"), ("VEL", "velocity"), ("SW", "spectrum_width"), ("ZDR", "differential_reflectivity"),
    ("PHI", "differential_phase"), ("RHO", "correlation_coefficient"), ("CFP", "specific_differential_phase")];

fn moment<'a>(r: &'a Radial, p: &str) -> Option<&'a MomentData> {
    match p { "REF" => r.reflectivity(), "VEL" => r.velocity(), "SW" => r.spectrum_width(), "ZDR" => r.differential_reflectivity(),
              "PHI" => r.differential_phase(), "RHO" => r.correlation_coefficient(), _ => r.specific_differential_phase() }
}
fn block<'a>(m: &'a Message, p: &str) -> Option<&'a GenericDataBlock> {
    match p { "REF" => m.reflectivity_data_block.as_ref(), "VEL" => m.velocity_data_block.as_ref(), "SW" => m.spectrum_width_data_block.as_ref(), "ZDR" => m.differential_reflectivity_data_block.as_ref(),
              "PHI" => m.differential_phase_data_block.as_ref(), "RHO" => m.correlation_coefficient_data_block.as_ref(), _ => m.specific_diff_phase_data_block.as_ref() }
}

fn cls_model(v: &MomentValue) -> (u8, u32) { match v { MomentValue::BelowThreshold => (0, 0), MomentValue::RangeFolded => (1, 0), MomentValue::Value(x) => (2, x.to_bits()) } }
fn cls_decode(v: &ScaledMomentValue) -> (u8, u32) { match v { ScaledMomentValue::BelowThreshold => (0, 0), ScaledMomentValue::RangeFolded => (1, 0), ScaledMomentValue::Value(x) => (2, x.to_bits()) } }

/// The one IEEE expression the numeric clause is compared with.
fn formula(raw: u32, scale: f32, offset: f32) -> f32 { if scale == 0.0 { raw as f32 } else { (raw as f32 - offset) / scale } }
fn same_f32(a: u32, b: f32) -> bool { a == b.to_bits() || (f32::from_bits(a).is_nan() && b.is_nan()) }

/// Projection of a model radial; values carry class and float bits per gate.
fn project(r: &Radial, with_values: bool) -> Value {
    let mut present = Map::new();
    let mut values = Map::new();
    for (p, _) in MOMENTS {
        present.insert(p.into(), json!(moment(r, p).is_some()));
        if with_values { if let Some(md) = moment(r, p) { values.insert(p.into(), match guarded(|| md.values().iter().map(|v| { let (c, b) = cls_model(v); json!([c, b]) }).collect::<Vec<_>>()) { Ok(v) => json!(v), Err(msg) => json!({"panic": msg}) }); } }
    }
    let ts = r.collection_timestamp();
    let sp = r.azimuth_spacing_degrees() as f64 * 2.0;
    json!({"azimuth_number": r.azimuth_number(), "elevation_number": r.elevation_number(), "az_bits": r.azimuth_angle_degrees().to_bits(), "el_bits": r.elevation_angle_degrees().to_bits(),
           "spacing_x2": if sp.fract() == 0.0 { sp as i64 } else { -777 }, "status": format!("{:?}", r.radial_status()), "ts_days": ts.div_euclid(86_400_000), "ts_ms": ts.rem_euclid(86_400_000),
           "present": Value::Object(present), "values": Value::Object(values)})
}

pub fn run(args: &Args) {
    let l = Layouts::load();
    let mut rng = Rng::new(args.seed);
    match args.mode.as_str() {
        "replay" => {
            let vectors = read_ndjson(args.input.as_deref().unwrap_or(""));
            let mut res = Results::create(args.out.as_deref().unwrap_or(""));
            for v in &vectors {
                let bytes = bytes_of(&v["bytes"]);
                let want = &v["radial"];
                let nmom = MOMENTS.iter().filter(|(p, _)| want["moments"][p]["absent"] == json!(false)).count();
                res.case(fnv(&bytes), nmom >= 1);
                let small = json!({"bytes": v["bytes"]});
                let m = match guarded(|| decode_digital_radar_data(&mut Cursor::new(&bytes))) { Ok(Ok(m)) => m, _ => { res.mismatch("violation", "C07/decode_failed", "well-formed message did not decode".into(), small); continue; } };
                let (a, b) = match guarded(|| (m.radial(), m.clone().into_radial())) {
                    Ok((Ok(a), Ok(b))) => (a, b),
                    Ok((ra, rb)) => { if ra.is_ok() != rb.is_ok() { res.mismatch("violation", "C07/radial_vs_into_radial", "one conversion failed, the other did not".into(), small); } continue; }
                    Err(p) => { res.mismatch("violation", "C07/radial/panic", p, small); continue; }
                };
                let (pa, pb) = (project(&a, true), project(&b, true));
                if pa != pb { res.mismatch("violation", "C07/radial_vs_into_radial", "radial() and into_radial() differ".into(), small.clone()); }
                if pa["azimuth_number"] != want["azimuth_number"] || pa["elevation_number"] != want["elevation_number"]
                    || json!(a.azimuth_angle_degrees().to_bits().to_be_bytes()) != want["azimuth_angle_bits"] || json!(a.elevation_angle_degrees().to_bits().to_be_bytes()) != want["elevation_angle_bits"] {
                    res.mismatch("violation", "C07/radial/numbers_and_angles", format!("expected az#{} el#{}", want["azimuth_number"], want["elevation_number"]), small.clone());
                }
                if pa["spacing_x2"] != want["spacing_x2"] { res.mismatch("violation", "C07/radial/azimuth_spacing", format!("expected code {} x 0.5, got x2 = {}", want["spacing_x2"], pa["spacing_x2"]), small.clone()); }
                if want["status"] != json!("undocumented") && pa["status"] != want["status"] { res.mismatch("violation", "C07/radial/status", format!("expected {} got {}", want["status"], pa["status"]), small.clone()); }
                let tms = u32::from_be_bytes(bytes_of(&want["time_ms_bytes"]).try_into().unwrap_or([0; 4])) as i64;
                if tms < 86_400_000 && want["time"][0].as_i64().unwrap_or(-1) >= 0 && (pa["ts_days"] != want["time"][0] || pa["ts_ms"] != json!(tms)) {
                    res.mismatch("violation", "C07/radial/collection_time", format!("expected day {} ms {} got day {} ms {}", want["time"][0], tms, pa["ts_days"], pa["ts_ms"]), small.clone());
                }
                for (p, _) in MOMENTS {
                    let w = &want["moments"][p];
                    let absent = w["absent"] == json!(true);
                    if absent != moment(&a, p).is_none() { res.mismatch("violation", "C07/radial/moment_presence", format!("{p}: expected absent={absent}"), small.clone()); continue; }
                    if absent { continue; }
                    let (blk, md) = (block(&m, p).expect("block"), moment(&a, p).expect("moment"));
                    let (scale, offset) = (blk.header.scale, blk.header.offset);
                    let want_cls: Vec<u8> = w["cls"].as_array().map(|c| c.iter().map(|x| match x.as_str() { Some("below") => 0, Some("folded") => 1, _ => 2 }).collect()).unwrap_or_default();
                    let raws = u64s(&w["raws"]);
                    let both = guarded(|| (blk.decoded_values().iter().map(cls_decode).collect::<Vec<_>>(), md.values().iter().map(cls_model).collect::<Vec<_>>()));
                    let (dv, mv) = match both { Ok(x) => x, Err(msg) => { res.mismatch("violation", "C07/values/panic", format!("{p}: {msg}"), small.clone()); continue; } };
                    for (level, got) in [("decoded_values", dv), ("model_values", mv)] {
                        if got.len() as u64 != w["gates"].as_u64().unwrap_or(0) { res.mismatch("violation", &format!("C07/{level}/one_value_per_gate"), format!("{p}: {} gates, {} values", w["gates"], got.len()), small.clone()); continue; }
                        for (k, (c, bits)) in got.iter().enumerate() {
                            if *c != want_cls[k] { res.mismatch("violation", &format!("C07/{level}/class"), format!("{p} gate {k}: raw {} expected class {} got {}", raws[k], want_cls[k], c), small.clone()); break; }
                            if *c == 2 && !same_f32(*bits, formula(raws[k] as u32, scale, offset)) { res.mismatch("violation", "C07/value_formula", format!("{p} gate {k}: raw {} scale {} offset {}", raws[k], scale, offset), small.clone()); break; }
                        }
                    }
                }
                if nmom == 2 { res.sample(json!({"bytes_len": bytes.len(), "radial": pa})); }
            }
            res.finish();
        }
        "record" => {
            let mut tr = TraceOut::create(args.out.as_deref().unwrap_or(""));
            let mut res = Results::create(args.res.as_deref().unwrap_or(""));
            // (a) every raw value of both word sizes x a fixed set of scale/offset pairs
            let pairs: Vec<(f32, f32)> = vec![(2.0, 66.0), (2.0, 129.0), (16.0, 128.0), (2.8361, 2.0), (300.0, -60.5), (1.0, 0.0), (0.0, 0.0), (-0.0, 5.0), (0.0, 66.0), (-2.0, 10.0),
                                              (f32::MIN_POSITIVE / 4.0, 0.0), (1.0e-8, 0.5), (-9.0e-8, 2.0), (3.0e38, -3.0e38), (0.1, 0.3), (100.0, 32768.0), (7.0, 1.0e-3)];
            let use_pairs = pairs.len();
            for (scale, offset) in pairs.iter().take(use_pairs) {
                for (w, first, n) in [(8u8, 0u32, 256usize), (16, 0, 32768), (16, 32768, 32768)] {
                    let p = if w == 16 { "PHI" } else { "REF" };
                    let mut b = random_block(&l, &mut rng, p, n, w, 0);
                    b.rec.insert("scale".into(), scale.to_bits().to_be_bytes().to_vec());
                    b.rec.insert("offset".into(), offset.to_bits().to_be_bytes().to_vec());
                    b.gates = if w == 8 { (0..n).map(|k| (first as usize + k) as u8).collect() } else { (0..n).flat_map(|k| ((first as usize + k) as u16).to_be_bytes()).collect() };
                    let hdr = l.get("drd_header").random(&mut rng);
                    let bytes = build_message(&l, &hdr, &[b], &[0]);
                    res.case(fnv(&bytes), true);
                    let m = match guarded(|| decode_digital_radar_data(&mut Cursor::new(&bytes))) { Ok(Ok(m)) => m, other => { res.mismatch("violation", "C07/decode_failed", format!("a well-formed type-31 message built by the driver does not decode: {:?}", other.map(|r| r.map(|_| ()))), json!({"bytes": bytes})); continue; } };
                    let r = guarded(|| { let blk = block(&m, p).expect("block"); (blk.decoded_values().iter().map(cls_decode).collect::<Vec<_>>(), blk.moment_data().values().iter().map(cls_model).collect::<Vec<_>>(), m.clone().into_radial().ok().and_then(|r| moment(&r, p).map(|md| md.values().iter().map(cls_model).collect::<Vec<_>>()))) });
                    match r {
                        Err(pn) => res.mismatch("violation", "C07/values/panic", pn, json!({"w": w, "scale": scale, "offset": offset})),
                        Ok((dv, mv, iv)) => {
                            let ok = |vals: &Vec<(u8, u32)>| vals.iter().enumerate().all(|(k, (c, bits))| *c != 2 || same_f32(*bits, formula(first + k as u32, *scale, *offset)));
                            let float_ok = ok(&dv) && ok(&mv) && iv.as_ref().map(|v| *v == mv).unwrap_or(false);
                            tr.ev(json!({"vals": 1, "w": w, "scale_zero": *scale == 0.0, "first_raw": first, "gates": n, "scale_bits": scale.to_bits(), "offset_bits": offset.to_bits(),
                                         "cls_decode": dv.iter().map(|x| x.0).collect::<Vec<_>>(), "cls_model": mv.iter().map(|x| x.0).collect::<Vec<_>>(), "float_ok": float_ok}));
                        }
                    }
                }
            }
            // (b) radial mapping on random headers / block subsets
            for _ in 0..(if args.thorough { 3000 } else { 400 }) {
                let prods: Vec<&str> = PRODUCTS.iter().copied().filter(|_| rng.chance(1, 2)).collect();
                let blocks: Vec<Block> = prods.iter().map(|p| { let g = rng.below(6) as usize; let w = if rng.chance(1, 3) { 16 } else { 8 }; random_block(&l, &mut rng, p, g, w, 0) }).collect();
                let mut hdr = l.get("drd_header").random(&mut rng);
                let (date, t) = (if rng.chance(1, 20) { 0 } else { 1 + rng.below(65535) as u16 }, if rng.chance(1, 20) { 86_400_000 + rng.below(1000) as u32 } else { rng.below(86_400_000) as u32 });
                let stc = if rng.chance(1, 10) { 6 + rng.below(250) as u8 } else { rng.below(6) as u8 };
                hdr.insert("date".into(), date.to_be_bytes().to_vec());
                hdr.insert("time".into(), t.to_be_bytes().to_vec());
                hdr.insert("radial_status".into(), vec![stc]);
                let ptrs: Vec<usize> = (0..blocks.len()).collect();
                let bytes = build_message(&l, &hdr, &blocks, &ptrs);
                res.case(fnv(&bytes), !prods.is_empty());
                let m = match guarded(|| decode_digital_radar_data(&mut Cursor::new(&bytes))) { Ok(Ok(m)) => m, other => { res.mismatch("violation", "C07/decode_failed", format!("a well-formed type-31 message built by the driver does not decode: {:?}", other.map(|r| r.map(|_| ()))), json!({"bytes": bytes})); continue; } };
                match guarded(|| (m.radial(), m.clone().into_radial())) {
                    Ok((Ok(a), Ok(b))) => {
                        let mut pa = project(&a, true); let mut pb = project(&b, true);
                        pa["angles_ok"] = json!(a.azimuth_angle_degrees().to_bits() == m.header.azimuth_angle.to_bits() && a.elevation_angle_degrees().to_bits() == m.header.elevation_angle.to_bits());
                        pb["angles_ok"] = json!(b.azimuth_angle_degrees().to_bits() == m.header.azimuth_angle.to_bits() && b.elevation_angle_degrees().to_bits() == m.header.elevation_angle.to_bits());
                        let present: Map<String, Value> = MOMENTS.iter().map(|(p, _)| (p.to_string(), json!(prods.contains(p)))).collect();
                        tr.ev(json!({"radial": 1, "azn": m.header.azimuth_number, "spc": m.header.azimuth_resolution_spacing, "stc": stc, "eln": m.header.elevation_number, "date": date, "t": t, "present": Value::Object(present), "a": pa, "b": pb}));
                    }
                    Ok(_) => res.mismatch("violation", "C07/radial/error", "radial conversion failed on a dated message".into(), json!({"date": date, "t": t})),
                    Err(pn) => res.mismatch("violation", "C07/radial/panic", pn, json!({"date": date, "t": t})),
                }
            }
            res.sample(json!({"values": "all 256 / 65,536 raw values x scale/offset pairs at decode and model level", "pairs": use_pairs}));
            tr.finish();
            res.finish();
        }
        m => { eprintln!("radial: unknown mode {m}"); std::process::exit(2) }
    }
}
