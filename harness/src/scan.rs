//! C01: File::scan against Scan.tla.
use crate::common::*;
use crate::container::{build_file, bz, default_header};
use crate::drd::{build_message, random_block, Block};
use crate::icd::*;
use nexrad_data::volume::File;
use nexrad_decode::messages::{decode_messages, MessageContents};
use serde_json::{json, Value};
use std::io::Cursor;

#[derive(Clone, Debug)]
pub struct Sym { pub radial: bool, pub el: u8, pub vol: u16, pub id: u64 }
fn sym_of(v: &Value) -> Sym { Sym { radial: v["k"] == json!("R"), el: v["el"].as_u64().unwrap_or(0) as u8, vol: v["vol"].as_u64().unwrap_or(0) as u16, id: v["id"].as_u64().unwrap_or(0) } }
fn sym_json(s: &Sym) -> Value { if s.radial { json!({"k": "R", "el": s.el, "vol": s.vol, "id": s.id}) } else { json!({"k": "M", "el": 0, "vol": 0, "id": 0}) } }

pub const DATE: u16 = 19_800;
pub const EXACT_ID: u64 = 70_000_000;

/// The model's pattern tokens are positive (0 = "no volume block"); on the wire token 35 is the pattern NUMBER 0,
/// so that a first volume block carrying number 0 is part of every run (the number is data, not a presence flag).
pub fn wire_vcp(token: u16) -> u16 { if token == 35 { 0 } else { token } }
pub fn vcp_token(number: i64) -> i64 { if number == 0 { 35 } else { number } }

/// one message frame; the tag of a radial travels in the collection time (ms of day) and the azimuth number
pub fn frame(l: &Layouts, rng: &mut Rng, s: &Sym, k: usize) -> Vec<u8> {
    if !s.radial {
        let ty = [2u8, 5, 15, 18, 3, 13][k % 6];
        let mut f = crate::frames::msg_header_bytes(ty, k as u16, 1208);
        let mut body = rng.bytes(2404);
        if ty == 5 { body[6] = 0; body[7] = 3; }
        f.extend_from_slice(&body);
        return f;
    }
    let mut f = crate::frames::msg_header_bytes(31, k as u16, 0xFFFF);
    let mut blocks: Vec<Block> = Vec::new();
    if s.id >= EXACT_ID {
        // a radial whose frame is exactly 1,216 bytes (half a fixed frame): two of them and 133 metadata frames make a record of
        // exactly 134 x 2,432 bytes -- the size of the metadata record that leads every real volume
        if s.vol != 0 { let mut b = random_block(l, rng, "VOL", 0, 8, 0); b.rec.insert("volume_coverage_pattern_number".into(), wire_vcp(s.vol).to_be_bytes().to_vec()); blocks.push(b); }
        blocks.push(random_block(l, rng, "ELV", 0, 8, 0));
        blocks.push(random_block(l, rng, "RAD", 0, 8, 0));
        blocks.push(random_block(l, rng, "REF", if s.vol != 0 { 1020 } else { 1076 }, 8, 0));
        let mut hdr = l.get("drd_header").random(rng);
        hdr.insert("elevation_number".into(), vec![s.el]);
        hdr.insert("date".into(), DATE.to_be_bytes().to_vec());
        hdr.insert("time".into(), (s.id as u32).to_be_bytes().to_vec());
        hdr.insert("azimuth_number".into(), ((s.id % 65_536) as u16).to_be_bytes().to_vec());
        hdr.insert("azimuth_angle".into(), ((s.id % 720) as f32 * 0.5).to_bits().to_be_bytes().to_vec());
        hdr.insert("elevation_angle".into(), (s.el as f32 * 0.1).to_bits().to_be_bytes().to_vec());
        for b in blocks.iter_mut() { if is_moment(&b.p) { b.rec.insert("scale".into(), 2.0f32.to_bits().to_be_bytes().to_vec()); b.rec.insert("offset".into(), 66.0f32.to_bits().to_be_bytes().to_vec()); } }
        let ptrs: Vec<usize> = (0..blocks.len()).collect();
        f.extend_from_slice(&build_message(l, &hdr, &blocks, &ptrs));
        if f.len() != 1216 { eprintln!("scan: exact radial frame is {} bytes", f.len()); std::process::exit(2); }
        return f;
    }
    if s.vol != 0 { let mut b = random_block(l, rng, "VOL", 0, 8, 0); b.rec.insert("volume_coverage_pattern_number".into(), wire_vcp(s.vol).to_be_bytes().to_vec()); blocks.push(b); }
    let all_blocks = s.vol != 0 && s.id % 3 == 0;      // a full ten-block radial every so often
    for p in ["ELV", "RAD", "REF", "VEL", "SW", "ZDR", "PHI", "RHO", "CFP"] {
        if all_blocks || rng.chance(1, 2) { let g = *rng.pick(&[0usize, 1, 7, 40]); let w = if p == "PHI" || rng.chance(1, 5) { 16 } else { 8 }; blocks.push(random_block(l, rng, p, g, w, 0)); }
    }
    let mut hdr = l.get("drd_header").random(rng);
    hdr.insert("elevation_number".into(), vec![s.el]);
    hdr.insert("date".into(), DATE.to_be_bytes().to_vec());
    hdr.insert("time".into(), (s.id as u32).to_be_bytes().to_vec());
    hdr.insert("azimuth_number".into(), ((s.id % 65_536) as u16).to_be_bytes().to_vec());
    // the spacing code cycles through 0, 1, 2 and 255 (code 0 is a legal byte: a spacing of 0 degrees)
    hdr.insert("azimuth_resolution_spacing".into(), vec![[0u8, 1, 2, 255][(s.id % 4) as usize]]);
    // finite angles so that radial equality is meaningful
    hdr.insert("azimuth_angle".into(), ((s.id % 720) as f32 * 0.5).to_bits().to_be_bytes().to_vec());
    hdr.insert("elevation_angle".into(), (s.el as f32 * 0.1).to_bits().to_be_bytes().to_vec());
    for b in blocks.iter_mut() { if is_moment(&b.p) { b.rec.insert("scale".into(), 2.0f32.to_bits().to_be_bytes().to_vec()); b.rec.insert("offset".into(), 66.0f32.to_bits().to_be_bytes().to_vec()); } }
    let ptrs: Vec<usize> = (0..blocks.len()).collect();
    f.extend_from_slice(&build_message(l, &hdr, &blocks, &ptrs));
    f
}

pub fn exercise(l: &Layouts, rng: &mut Rng, recs: &[Vec<Sym>]) -> Value {
    let (hb, _) = default_header(l, rng);
    let mut alone: std::collections::HashMap<u64, nexrad_model::data::Radial> = Default::default();
    let mut wire = Vec::new();
    let mut k = 0;
    for r in recs {
        let mut payload = Vec::new();
        for s in r {
            let f = frame(l, rng, s, k);
            k += 1;
            if s.radial {
                if let Ok(ms) = decode_messages(&mut Cursor::new(&f)) { if let Some(m) = ms.into_iter().next() { if let MessageContents::DigitalRadarData(d) = m.into_contents() { if let Ok(rad) = d.into_radial() { alone.insert(s.id, rad); } } } }
            }
            payload.extend_from_slice(&f);
        }
        wire.push((bz(&payload), rng.chance(1, 2)));
    }
    let bytes = build_file(&hb, &wire);
    let rj: Vec<Value> = recs.iter().map(|r| json!(r.iter().map(sym_json).collect::<Vec<_>>())).collect();
    match guarded(|| File::new(bytes).scan()) {
        Err(p) => json!({"recs": rj, "out": "panic", "vcp": 0, "sweeps": [], "same": false, "detail": p}),
        Ok(Err(e)) => json!({"recs": rj, "out": "err", "vcp": 0, "sweeps": [], "same": true, "detail": format!("{e:?}")}),
        Ok(Ok(scan)) => {
            let base = (DATE as i64 - 1) * 86_400_000;
            let mut same = true;
            let sweeps: Vec<Value> = scan.sweeps().iter().map(|s| {
                let ids: Vec<i64> = s.radials().iter().map(|r| r.collection_timestamp() - base).collect();
                for r in s.radials() { let id = (r.collection_timestamp() - base) as u64; same &= alone.get(&id).map(|a| a == r).unwrap_or(false) && r.elevation_number() == s.elevation_number(); }
                json!({"el": s.elevation_number(), "ids": ids})
            }).collect();
            json!({"recs": rj, "out": "ok", "vcp": vcp_token(scan.coverage_pattern_number() as i64), "sweeps": sweeps, "same": same, "detail": ""})
        }
    }
}

pub fn run(args: &Args) {
    let l = Layouts::load();
    let mut rng = Rng::new(args.seed);
    match args.mode.as_str() {
        "replay" => {
            let vectors = read_ndjson(args.input.as_deref().unwrap_or(""));
            let mut res = Results::create(args.out.as_deref().unwrap_or(""));
            for v in &vectors {
                let recs: Vec<Vec<Sym>> = v["recs"].as_array().map(|a| a.iter().map(|r| r.as_array().map(|m| m.iter().map(sym_of).collect()).unwrap_or_default()).collect()).unwrap_or_default();
                let nrad: usize = recs.iter().map(|r| r.iter().filter(|s| s.radial).count()).sum();
                res.case(hash_value(&v["recs"]), nrad >= 1);
                let e = exercise(&l, &mut rng, &recs);
                let small = json!({"recs": v["recs"], "expected": {"vcp": v["vcp"], "sweeps": v["sweeps"]}, "got": {"out": e["out"], "vcp": e["vcp"], "sweeps": e["sweeps"], "detail": e["detail"]}});
                let want_err = v["vcp"] == json!(0);
                match (want_err, e["out"].as_str().unwrap_or("")) {
                    (_, "panic") => res.mismatch("violation", "C01/scan/panic", e["detail"].to_string(), small),
                    (true, "err") => {}
                    (true, _) => res.mismatch("violation", "C01/scan/missing_vcp_accepted", "a volume without any VOL block produced a scan".into(), small),
                    (false, "err") => res.mismatch("violation", "C01/scan/error_on_wellformed", e["detail"].to_string(), small),
                    (false, _) => {
                        if e["vcp"] != v["vcp"] { res.mismatch("violation", "C01/scan/coverage_pattern", format!("expected {} got {}", v["vcp"], e["vcp"]), small.clone()); }
                        if e["sweeps"] != v["sweeps"] {
                            let (w, g) = (v["sweeps"].as_array().cloned().unwrap_or_default(), e["sweeps"].as_array().cloned().unwrap_or_default());
                            let sig = if !w.is_empty() && g.len() + 1 == w.len() && g[..] == w[..w.len() - 1] { "C01/scan/final_sweep_lost" } else { "C01/scan/radials" };
                            res.mismatch("violation", sig, format!("expected {} got {}", v["sweeps"], e["sweeps"]), small.clone());
                        }
                        if e["same"] != json!(true) { res.mismatch("violation", "C01/scan/radial_altered", "a radial differs from the stand-alone decode of its message".into(), small.clone()); }
                    }
                }
                if nrad == 3 && recs.len() == 2 { res.sample(json!({"recs": v["recs"], "sweeps": e["sweeps"], "vcp": e["vcp"]})); }
            }
            res.finish();
        }
        "record" => {
            let mut tr = TraceOut::create(args.out.as_deref().unwrap_or(""));
            let mut res = Results::create(args.res.as_deref().unwrap_or(""));
            let vols = if args.thorough { 40 } else { 10 };
            for k in 0..vols {
                // elevation sequence: single, SAILS-like repeats, up to 255 elevations
                let els: Vec<u64> = match k % 5 { 0 => vec![1 + rng.below(255)], 1 => vec![1, 2, 1, 3, 4, 1, 5], 2 => (1..=(if args.thorough && k % 10 == 2 { 255 } else { 40 })).collect(), _ => crate::sweep::gen_elevations(&mut rng, 12).into_iter().collect() };
                // volume 9 of every run: one elevation of 950 radials (longer than any real sweep)
                let els: Vec<u64> = if k == 9 { vec![els.first().copied().unwrap_or(5)] } else { els };
                let per = if k == 9 { 950 } else if args.thorough && k % 8 == 1 { 720 } else { 1 + rng.below(if args.thorough { 40 } else { 30 }) };
                let mut stream: Vec<Sym> = Vec::new();
                let mut id = 1u64;
                let vols_at = rng.below(3);
                for (ei, el) in els.iter().enumerate() {
                    let n = if k % 5 == 3 { 1 } else if els.len() > 40 { per.min(8) } else if per == 720 && ei > 3 { 5 } else { per };
                    for j in 0..n {
                        if rng.chance(1, 25) { stream.push(Sym { radial: false, el: 0, vol: 0, id: 0 }); }
                        let vol = if (ei as u64 >= vols_at && j == 0) || rng.chance(1, 50) { *rng.pick(&[212u16, 35, 12, 215]) } else { 0 };
                        stream.push(Sym { radial: true, el: *el as u8, vol, id });
                        id += 1;
                    }
                }
                if k % 7 == 6 { for s in stream.iter_mut() { s.vol = 0; } }
                // random record split (empty records allowed)
                let mut recs: Vec<Vec<Sym>> = vec![vec![]];
                for s in stream { if rng.chance(1, 40) { recs.push(vec![]); if rng.chance(1, 10) { recs.push(vec![]); } } recs.last_mut().expect("rec").push(s); }
                if k == 8 {
                    // the shape of a real volume: a leading record of exactly 134 metadata frames; and, further on, a record of the
                    // very same size (133 metadata frames + two half-frame radials) that does carry radials
                    let m = || Sym { radial: false, el: 0, vol: 0, id: 0 };
                    let lead: Vec<Sym> = (0..134).map(|_| m()).collect();
                    let last_el = recs.iter().flatten().filter(|s| s.radial).last().map(|s| s.el).unwrap_or(1);
                    let mut twin: Vec<Sym> = (0..133).map(|_| m()).collect();
                    twin.push(Sym { radial: true, el: last_el, vol: 215, id: EXACT_ID + 1 });
                    twin.push(Sym { radial: true, el: last_el.wrapping_add(1).max(1), vol: 0, id: EXACT_ID + 2 });
                    recs.insert(0, lead);
                    recs.push(twin);
                }
                if k == 4 {
                    // one LDM record whose decompressed payload exceeds 4 MiB (1,730 metadata frames of 2,432 bytes ahead of its radials)
                    let mut big: Vec<Sym> = (0..1730).map(|_| Sym { radial: false, el: 0, vol: 0, id: 0 }).collect();
                    big.extend(recs[0].drain(..));
                    recs[0] = big;
                }
                res.case(fnv(format!("{:?}", recs).as_bytes()), true);
                tr.ev(exercise(&l, &mut rng, &recs));
            }
            res.sample(json!({"volumes": vols, "shapes": "single elevation, SAILS repeats, up to 255 elevations, 1..720 radials per elevation, metadata interleaved, random record splits"}));
            tr.finish();
            res.finish();
        }
        m => { eprintln!("scan: unknown mode {m}"); std::process::exit(2) }
    }
}
