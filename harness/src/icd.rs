//! ICD layouts (exported from spec/Icd.tla as layouts.json), a table-driven encoder, and the
//! hand-written projections "decoded struct -> field name -> big-endian bytes" -- the one place
//! where the crates' struct fields are named.
use nexrad_decode::messages::digital_radar_data as drd;
use nexrad_decode::messages::message_header::MessageHeader;
use nexrad_decode::messages::{clutter_filter_map as cfm, rda_status_data as rda, volume_coverage_pattern as vcp};
use serde_json::{json, Map, Value};
use std::collections::BTreeMap;

pub type Fields = BTreeMap<String, Vec<u8>>;

pub struct Layout { pub fields: Vec<(String, usize, usize)> } // name, width, offset

pub struct Layouts(pub BTreeMap<String, Layout>);

impl Layouts {
    pub fn load() -> Layouts {
        let path = std::env::var("VERIF_LAYOUTS").unwrap_or_else(|_| "/verif/harness/layouts.json".into());
        let text = std::fs::read_to_string(&path).unwrap_or_else(|e| { eprintln!("cannot read {path}: {e} (run bin/vsetup)"); std::process::exit(2) });
        let v: Value = serde_json::from_str(&text).expect("layouts json");
        let mut m = BTreeMap::new();
        for (name, arr) in v.as_object().expect("object") {
            let fields = arr.as_array().expect("array").iter().map(|f| (f["name"].as_str().unwrap_or("").to_string(), f["width"].as_u64().unwrap_or(0) as usize, f["offset"].as_u64().unwrap_or(0) as usize)).collect();
            m.insert(name.clone(), Layout { fields });
        }
        Layouts(m)
    }
    pub fn get(&self, name: &str) -> &Layout { self.0.get(name).unwrap_or_else(|| { eprintln!("no layout {name}"); std::process::exit(2) }) }
}

impl Layout {
    pub fn size(&self) -> usize { self.fields.iter().map(|f| f.1).sum() }
    /// Encode in layout order; missing fields are zero.
    pub fn encode(&self, rec: &Fields) -> Vec<u8> {
        let mut out = Vec::with_capacity(self.size());
        for (name, width, _) in &self.fields {
            match rec.get(name) {
                Some(b) if b.len() == *width => out.extend_from_slice(b),
                Some(b) => { eprintln!("field {name}: width {} != {}", b.len(), width); std::process::exit(2) }
                None => out.extend(std::iter::repeat(0).take(*width)),
            }
        }
        out
    }
    /// Random record: every field arbitrary bytes.
    pub fn random(&self, rng: &mut crate::common::Rng) -> Fields {
        self.fields.iter().map(|(n, w, _)| (n.clone(), rng.bytes(*w))).collect()
    }
}

pub fn fields_json(f: &Fields) -> Value { Value::Object(f.iter().map(|(k, v)| (k.clone(), json!(v))).collect::<Map<_, _>>()) }
pub fn fields_from_json(v: &Value) -> Fields {
    v.as_object().map(|o| o.iter().map(|(k, b)| (k.clone(), b.as_array().map(|a| a.iter().map(|x| x.as_u64().unwrap_or(0) as u8).collect()).unwrap_or_default())).collect()).unwrap_or_default()
}

macro_rules! put { ($m:ident, $name:expr, $v:expr) => { $m.insert($name.to_string(), $v.to_be_bytes().to_vec()); }; }
macro_rules! putf { ($m:ident, $name:expr, $v:expr) => { $m.insert($name.to_string(), $v.to_bits().to_be_bytes().to_vec()); }; }

/// rpg_unknown (12 leading bytes) is private and therefore not projected.
pub fn msg_header(h: &MessageHeader) -> Fields {
    let mut m = Fields::new();
    put!(m, "segment_size", h.segment_size);
    put!(m, "redundant_channel", h.redundant_channel);
    put!(m, "message_type", h.message_type);
    put!(m, "sequence_number", h.sequence_number);
    put!(m, "date", h.date);
    put!(m, "time", h.time);
    put!(m, "segment_count", h.segment_count);
    put!(m, "segment_number", h.segment_number);
    m
}

pub fn drd_header(h: &drd::Header) -> Fields {
    let mut m = Fields::new();
    m.insert("radar_identifier".into(), h.radar_identifier.to_vec());
    put!(m, "time", h.time);
    put!(m, "date", h.date);
    put!(m, "azimuth_number", h.azimuth_number);
    putf!(m, "azimuth_angle", h.azimuth_angle);
    put!(m, "compression_indicator", h.compression_indicator);
    put!(m, "spare", h.spare);
    put!(m, "radial_length", h.radial_length);
    put!(m, "azimuth_resolution_spacing", h.azimuth_resolution_spacing);
    put!(m, "radial_status", h.radial_status);
    put!(m, "elevation_number", h.elevation_number);
    put!(m, "cut_sector_number", h.cut_sector_number);
    putf!(m, "elevation_angle", h.elevation_angle);
    put!(m, "radial_spot_blanking_status", h.radial_spot_blanking_status);
    put!(m, "azimuth_indexing_mode", h.azimuth_indexing_mode);
    put!(m, "data_block_count", h.data_block_count);
    m
}

fn block_id(m: &mut Fields, id: &drd::DataBlockId) {
    m.insert("data_block_type".into(), vec![id.data_block_type]);
    m.insert("data_name".into(), id.data_name.to_vec());
}

pub fn vol(b: &drd::VolumeDataBlock) -> Fields {
    let mut m = Fields::new();
    block_id(&mut m, &b.data_block_id);
    put!(m, "lrtup", b.lrtup);
    put!(m, "major_version_number", b.major_version_number);
    put!(m, "minor_version_number", b.minor_version_number);
    putf!(m, "latitude", b.latitude);
    putf!(m, "longitude", b.longitude);
    put!(m, "site_height", b.site_height);
    put!(m, "feedhorn_height", b.feedhorn_height);
    putf!(m, "calibration_constant", b.calibration_constant);
    putf!(m, "horizontal_shv_tx_power", b.horizontal_shv_tx_power);
    putf!(m, "vertical_shv_tx_power", b.vertical_shv_tx_power);
    putf!(m, "system_differential_reflectivity", b.system_differential_reflectivity);
    putf!(m, "initial_system_differential_phase", b.initial_system_differential_phase);
    put!(m, "volume_coverage_pattern_number", b.volume_coverage_pattern_number);
    put!(m, "processing_status", b.processing_status);
    put!(m, "zdr_bias_estimate_weighted_mean", b.zdr_bias_estimate_weighted_mean);
    m.insert("spare".into(), b.spare.to_vec());
    m
}

pub fn elv(b: &drd::ElevationDataBlock) -> Fields {
    let mut m = Fields::new();
    block_id(&mut m, &b.data_block_id);
    put!(m, "lrtup", b.lrtup);
    put!(m, "atmos", b.atmos);
    putf!(m, "calibration_constant", b.calibration_constant);
    m
}

pub fn rad(b: &drd::RadialDataBlock) -> Fields {
    let mut m = Fields::new();
    block_id(&mut m, &b.data_block_id);
    put!(m, "lrtup", b.lrtup);
    put!(m, "unambiguous_range", b.unambiguous_range);
    putf!(m, "horizontal_channel_noise_level", b.horizontal_channel_noise_level);
    putf!(m, "vertical_channel_noise_level", b.vertical_channel_noise_level);
    put!(m, "nyquist_velocity", b.nyquist_velocity);
    put!(m, "radial_flags", b.radial_flags);
    putf!(m, "horizontal_channel_calibration_constant", b.horizontal_channel_calibration_constant);
    putf!(m, "vertical_channel_calibration_constant", b.vertical_channel_calibration_constant);
    m
}

pub fn gen(h: &drd::GenericDataBlockHeader) -> Fields {
    let mut m = Fields::new();
    block_id(&mut m, &h.data_block_id);
    put!(m, "reserved", h.reserved);
    put!(m, "number_of_data_moment_gates", h.number_of_data_moment_gates);
    put!(m, "data_moment_range", h.data_moment_range);
    put!(m, "data_moment_range_sample_interval", h.data_moment_range_sample_interval);
    put!(m, "tover", h.tover);
    put!(m, "snr_threshold", h.snr_threshold);
    put!(m, "control_flags", h.control_flags);
    put!(m, "data_word_size", h.data_word_size);
    putf!(m, "scale", h.scale);
    putf!(m, "offset", h.offset);
    m
}

pub const PRODUCTS: [&str; 10] = ["VOL", "ELV", "RAD", "REF", "VEL", "SW", "ZDR", "PHI", "RHO", "CFP"];
pub fn block_name(p: &str) -> [u8; 3] { match p { "SW" => *b"SW ", _ => { let b = p.as_bytes(); [b[0], b[1], b[2]] } } }
pub fn is_moment(p: &str) -> bool { !matches!(p, "VOL" | "ELV" | "RAD") }
pub fn block_layout(p: &str) -> &'static str { match p { "VOL" => "vol", "ELV" => "elv", "RAD" => "rad", _ => "gen" } }

/// product -> {absent:true} | {absent:false, rec, gates}
pub fn drd_products(m: &drd::Message) -> Value {
    let mut o = Map::new();
    let absent = json!({"absent": true});
    let fixed = |f: Fields| json!({"absent": false, "rec": fields_json(&f), "gates": []});
    o.insert("VOL".into(), m.volume_data_block.as_ref().map(|b| fixed(vol(b))).unwrap_or(absent.clone()));
    o.insert("ELV".into(), m.elevation_data_block.as_ref().map(|b| fixed(elv(b))).unwrap_or(absent.clone()));
    o.insert("RAD".into(), m.radial_data_block.as_ref().map(|b| fixed(rad(b))).unwrap_or(absent.clone()));
    let mo = |b: &Option<drd::GenericDataBlock>| b.as_ref().map(|b| json!({"absent": false, "rec": fields_json(&gen(&b.header)), "gates": b.encoded_data})).unwrap_or(absent.clone());
    o.insert("REF".into(), mo(&m.reflectivity_data_block));
    o.insert("VEL".into(), mo(&m.velocity_data_block));
    o.insert("SW".into(), mo(&m.spectrum_width_data_block));
    o.insert("ZDR".into(), mo(&m.differential_reflectivity_data_block));
    o.insert("PHI".into(), mo(&m.differential_phase_data_block));
    o.insert("RHO".into(), mo(&m.correlation_coefficient_data_block));
    o.insert("CFP".into(), mo(&m.specific_diff_phase_data_block));
    Value::Object(o)
}

pub fn vcp_header(h: &vcp::Header) -> Fields {
    let mut m = Fields::new();
    put!(m, "message_size", h.message_size);
    put!(m, "pattern_type", h.pattern_type);
    put!(m, "pattern_number", h.pattern_number);
    put!(m, "number_of_elevation_cuts", h.number_of_elevation_cuts);
    put!(m, "version", h.version);
    put!(m, "clutter_map_group_number", h.clutter_map_group_number);
    put!(m, "doppler_velocity_resolution", h.doppler_velocity_resolution);
    put!(m, "pulse_width", h.pulse_width);
    put!(m, "reserved_1", h.reserved_1);
    put!(m, "vcp_sequencing", h.vcp_sequencing);
    put!(m, "vcp_supplemental_data", h.vcp_supplemental_data);
    put!(m, "reserved_2", h.reserved_2);
    m
}

pub fn vcp_cut(c: &vcp::ElevationDataBlock) -> Fields {
    let mut m = Fields::new();
    put!(m, "elevation_angle", c.elevation_angle);
    put!(m, "channel_configuration", c.channel_configuration);
    put!(m, "waveform_type", c.waveform_type);
    put!(m, "super_resolution_control", c.super_resolution_control);
    put!(m, "surveillance_prf_number", c.surveillance_prf_number);
    put!(m, "surveillance_prf_pulse_count_radial", c.surveillance_prf_pulse_count_radial);
    put!(m, "azimuth_rate", c.azimuth_rate);
    put!(m, "reflectivity_threshold", c.reflectivity_threshold);
    put!(m, "velocity_threshold", c.velocity_threshold);
    put!(m, "spectrum_width_threshold", c.spectrum_width_threshold);
    put!(m, "differential_reflectivity_threshold", c.differential_reflectivity_threshold);
    put!(m, "differential_phase_threshold", c.differential_phase_threshold);
    put!(m, "correlation_coefficient_threshold", c.correlation_coefficient_threshold);
    put!(m, "sector_1_edge_angle", c.sector_1_edge_angle);
    put!(m, "sector_1_doppler_prf_number", c.sector_1_doppler_prf_number);
    put!(m, "sector_1_doppler_prf_pulse_count_radial", c.sector_1_doppler_prf_pulse_count_radial);
    put!(m, "supplemental_data", c.supplemental_data);
    put!(m, "sector_2_edge_angle", c.sector_2_edge_angle);
    put!(m, "sector_2_doppler_prf_number", c.sector_2_doppler_prf_number);
    put!(m, "sector_2_doppler_prf_pulse_count_radial", c.sector_2_doppler_prf_pulse_count_radial);
    put!(m, "ebc_angle", c.ebc_angle);
    put!(m, "sector_3_edge_angle", c.sector_3_edge_angle);
    put!(m, "sector_3_doppler_prf_number", c.sector_3_doppler_prf_number);
    put!(m, "sector_3_doppler_prf_pulse_count_radial", c.sector_3_doppler_prf_pulse_count_radial);
    put!(m, "reserved", c.reserved);
    m
}

pub fn rda_message(r: &rda::Message) -> Fields {
    let mut m = Fields::new();
    put!(m, "rda_status", r.rda_status);
    put!(m, "operability_status", r.operability_status);
    put!(m, "control_status", r.control_status);
    put!(m, "auxiliary_power_generator_state", r.auxiliary_power_generator_state);
    put!(m, "average_transmitter_power", r.average_transmitter_power);
    put!(m, "horizontal_reflectivity_calibration_correction", r.horizontal_reflectivity_calibration_correction);
    put!(m, "data_transmission_enabled", r.data_transmission_enabled);
    put!(m, "volume_coverage_pattern", r.volume_coverage_pattern);
    put!(m, "rda_control_authorization", r.rda_control_authorization);
    put!(m, "rda_build_number", r.rda_build_number);
    put!(m, "operational_mode", r.operational_mode);
    put!(m, "super_resolution_status", r.super_resolution_status);
    put!(m, "clutter_mitigation_decision_status", r.clutter_mitigation_decision_status);
    put!(m, "rda_scan_and_data_flags", r.rda_scan_and_data_flags);
    put!(m, "rda_alarm_summary", r.rda_alarm_summary);
    put!(m, "command_acknowledgement", r.command_acknowledgement);
    put!(m, "channel_control_status", r.channel_control_status);
    put!(m, "spot_blanking_status", r.spot_blanking_status);
    put!(m, "bypass_map_generation_date", r.bypass_map_generation_date);
    put!(m, "bypass_map_generation_time", r.bypass_map_generation_time);
    put!(m, "clutter_filter_map_generation_date", r.clutter_filter_map_generation_date);
    put!(m, "clutter_filter_map_generation_time", r.clutter_filter_map_generation_time);
    put!(m, "vertical_reflectivity_calibration_correction", r.vertical_reflectivity_calibration_correction);
    put!(m, "transition_power_source_status", r.transition_power_source_status);
    put!(m, "rms_control_status", r.rms_control_status);
    put!(m, "performance_check_status", r.performance_check_status);
    m.insert("alarm_codes".into(), r.alarm_codes.iter().flat_map(|c| c.to_be_bytes()).collect());
    put!(m, "signal_processor_options", r.signal_processor_options);
    m.insert("spares".into(), r.spares.iter().flat_map(|c| c.to_be_bytes()).collect());
    put!(m, "status_version", r.status_version);
    m
}

pub fn cfm_header(h: &cfm::Header) -> Fields {
    let mut m = Fields::new();
    put!(m, "map_generation_date", h.map_generation_date);
    put!(m, "map_generation_time", h.map_generation_time);
    put!(m, "elevation_segment_count", h.elevation_segment_count);
    m
}
