//! Loop-back S3 simulator: hand-written HTTP/1.1 on a tokio TcpListener, run on the SAME
//! single-threaded runtime as the code under test, so the request log is in program order.
//! ListObjectsV2 (prefix filter, lexicographic order, max-keys truncation, XML escaping) and GET
//! object (Last-Modified, 404) with an optional per-request handler for scripted behaviour/faults.
use chrono::{DateTime, Utc};
use std::collections::BTreeMap;
use std::sync::{Arc, Mutex};
use tokio::io::{AsyncReadExt, AsyncWriteExt};
use tokio::net::TcpListener;

#[derive(Clone, Debug)]
pub struct Req {
    pub index: usize,
    pub method: String,
    pub raw_target: String,
    pub path: String,                 // percent-decoded, without the query
    pub query: Vec<(String, String)>, // percent-decoded
}

impl Req {
    pub fn q(&self, name: &str) -> Option<&str> {
        self.query.iter().find(|(k, _)| k == name).map(|(_, v)| v.as_str())
    }
    pub fn is_list(&self) -> bool { self.q("list-type").is_some() }
    /// "bucket" and "key" of an object GET (/bucket/key...)
    pub fn bucket_key(&self) -> (String, String) {
        let p = self.path.trim_start_matches('/');
        match p.find('/') {
            Some(i) => (p[..i].to_string(), p[i + 1..].to_string()),
            None => (p.to_string(), String::new()),
        }
    }
}

#[derive(Clone, Debug)]
pub struct Resp {
    pub status: u16,
    pub headers: Vec<(String, String)>,
    pub body: Vec<u8>,
}

impl Resp {
    pub fn new(status: u16, body: Vec<u8>) -> Resp { Resp { status, headers: vec![], body } }
    pub fn xml(status: u16, body: String) -> Resp {
        Resp { status, headers: vec![("Content-Type".into(), "application/xml".into())], body: body.into_bytes() }
    }
    pub fn not_found() -> Resp {
        Resp::xml(404, "<?xml version=\"1.0\" encoding=\"UTF-8\"?>\n<Error><Code>NoSuchKey</Code><Message>The specified key does not exist.</Message></Error>".into())
    }
}

#[derive(Clone, Debug)]
pub struct Obj {
    pub data: Vec<u8>,
    pub last_modified: DateTime<Utc>,
    /// text to put into <LastModified> (default: RFC 3339 with milliseconds, as S3 does)
    pub lm_text: Option<String>,
    /// text to put into <Size> (default: data length)
    pub size_text: Option<String>,
}

pub type Handler = Box<dyn FnMut(&Req, &mut SimState) -> Option<Resp> + Send>;

#[derive(Default)]
pub struct SimState {
    /// "bucket/key" -> object
    pub objects: BTreeMap<String, Obj>,
    pub log: Vec<Req>,
    /// transport: 0 = the body is written at once; n > 0 = in frames of n bytes, each flushed and separated by a
    /// (virtual-time) pause so that the client reads them as separate chunks
    pub frame: usize,
    /// transport fault: a 200 object response announces its full Content-Length but the connection is closed
    /// after this many body bytes
    pub cut_body: Option<usize>,
    /// transport: the body is sent with Transfer-Encoding: chunked (no Content-Length), in chunks of this many bytes
    pub chunked: usize,
}

pub struct Sim {
    pub state: Arc<Mutex<SimState>>,
    pub handler: Arc<Mutex<Option<Handler>>>,
    pub port: u16,
}

pub fn xml_escape(s: &str) -> String {
    let mut o = String::with_capacity(s.len());
    for c in s.chars() {
        match c {
            '&' => o.push_str("&amp;"),
            '<' => o.push_str("&lt;"),
            '>' => o.push_str("&gt;"),
            '"' => o.push_str("&quot;"),
            '\'' => o.push_str("&apos;"),
            c => o.push(c),
        }
    }
    o
}

pub fn lm_rfc3339(t: &DateTime<Utc>) -> String { t.format("%Y-%m-%dT%H:%M:%S%.3fZ").to_string() }
pub fn lm_http(t: &DateTime<Utc>) -> String { t.format("%a, %d %b %Y %H:%M:%S GMT").to_string() }

/// One <Contents> entry.
pub fn contents_xml(key: &str, lm: &str, size: &str) -> String {
    format!("<Contents><Key>{}</Key><LastModified>{}</LastModified><ETag>&quot;0&quot;</ETag><Size>{}</Size><StorageClass>STANDARD</StorageClass></Contents>",
            xml_escape(key), lm, size)
}

pub fn list_envelope(bucket: &str, prefix: &str, max_keys: usize, truncated: bool, contents: &str, count: usize) -> String {
    format!("<?xml version=\"1.0\" encoding=\"UTF-8\"?>\n<ListBucketResult xmlns=\"http://s3.amazonaws.com/doc/2006-03-01/\"><Name>{}</Name><Prefix>{}</Prefix><KeyCount>{}</KeyCount><MaxKeys>{}</MaxKeys><IsTruncated>{}</IsTruncated>{}</ListBucketResult>",
            xml_escape(bucket), xml_escape(prefix), count, max_keys, truncated, contents)
}

/// ListObjectsV2 over the stored objects.
pub fn list_response(state: &SimState, bucket: &str, prefix: &str, max_keys: usize) -> Resp {
    let full = format!("{}/{}", bucket, prefix);
    let mut contents = String::new();
    let mut n = 0;
    let mut truncated = false;
    for (k, o) in state.objects.range(full.clone()..) {
        if !k.starts_with(&full) { break; }
        if n == max_keys { truncated = true; break; }
        let key = &k[bucket.len() + 1..];
        let lm = o.lm_text.clone().unwrap_or_else(|| lm_rfc3339(&o.last_modified));
        let size = o.size_text.clone().unwrap_or_else(|| o.data.len().to_string());
        contents.push_str(&contents_xml(key, &lm, &size));
        n += 1;
    }
    Resp::xml(200, list_envelope(bucket, prefix, max_keys, truncated, &contents, n))
}

pub fn get_response(state: &SimState, bucket: &str, key: &str) -> Resp {
    match state.objects.get(&format!("{}/{}", bucket, key)) {
        Some(o) => Resp {
            status: 200,
            headers: vec![("Last-Modified".into(), lm_http(&o.last_modified)), ("Content-Type".into(), "application/octet-stream".into())],
            body: o.data.clone(),
        },
        None => Resp::not_found(),
    }
}

fn percent_decode(s: &str, plus_space: bool) -> String {
    let b = s.as_bytes();
    let mut out = Vec::with_capacity(b.len());
    let mut i = 0;
    while i < b.len() {
        if b[i] == b'%' && i + 2 < b.len() + 0 && i + 2 <= b.len() - 1 + 0 {
            if let Ok(v) = u8::from_str_radix(&s[i + 1..i + 3], 16) {
                out.push(v);
                i += 3;
                continue;
            }
        }
        if plus_space && b[i] == b'+' { out.push(b' '); } else { out.push(b[i]); }
        i += 1;
    }
    String::from_utf8_lossy(&out).to_string()
}

fn reason(status: u16) -> &'static str {
    match status { 200 => "OK", 403 => "Forbidden", 404 => "Not Found", 500 => "Internal Server Error", 503 => "Service Unavailable", _ => "Status" }
}

impl Sim {
    /// Binds 127.0.0.1:0, points the library's guarded endpoint override at it and starts serving.
    pub async fn start() -> Sim {
        let listener = TcpListener::bind("127.0.0.1:0").await.expect("bind");
        let port = listener.local_addr().expect("addr").port();
        std::env::set_var("NEXRAD_VERIF_S3_ENDPOINT", format!("http://127.0.0.1:{port}"));
        let state = Arc::new(Mutex::new(SimState::default()));
        let handler: Arc<Mutex<Option<Handler>>> = Arc::new(Mutex::new(None));
        let (st, hd) = (state.clone(), handler.clone());
        tokio::spawn(async move {
            loop {
                let (mut sock, _) = match listener.accept().await { Ok(x) => x, Err(_) => continue };
                let (st, hd) = (st.clone(), hd.clone());
                tokio::spawn(async move {
                    let mut buf = Vec::new();
                    let mut tmp = [0u8; 4096];
                    loop {
                        match sock.read(&mut tmp).await {
                            Ok(0) | Err(_) => break,
                            Ok(n) => {
                                buf.extend_from_slice(&tmp[..n]);
                                if buf.windows(4).any(|w| w == b"\r\n\r\n") { break; }
                                if buf.len() > 65536 { break; }
                            }
                        }
                    }
                    let head = String::from_utf8_lossy(&buf).to_string();
                    let line = head.lines().next().unwrap_or("").to_string();
                    let mut parts = line.split(' ');
                    let method = parts.next().unwrap_or("").to_string();
                    let target = parts.next().unwrap_or("/").to_string();
                    let (rawpath, rawquery) = match target.find('?') { Some(i) => (&target[..i], &target[i + 1..]), None => (&target[..], "") };
                    let query: Vec<(String, String)> = rawquery.split('&').filter(|s| !s.is_empty()).map(|kv| {
                        match kv.find('=') { Some(i) => (percent_decode(&kv[..i], true), percent_decode(&kv[i + 1..], true)), None => (percent_decode(kv, true), String::new()) }
                    }).collect();
                    let mut transport = (0usize, None);
                    let mut chunked = 0usize;
                    let resp = {
                        let mut s = st.lock().expect("state");
                        let req = Req { index: s.log.len(), method, raw_target: target.clone(), path: percent_decode(rawpath, false), query };
                        s.log.push(req.clone());
                        let scripted = { let mut h = hd.lock().expect("handler"); match h.as_mut() { Some(f) => f(&req, &mut s), None => None } };
                        chunked = s.chunked;
                        transport = (s.frame, s.cut_body);       // after the handler: a script may set the transport of this very response
                        match scripted {
                            Some(r) => r,
                            None => {
                                if req.is_list() {
                                    let bucket = req.path.trim_matches('/').to_string();
                                    let max = req.q("max-keys").and_then(|m| m.parse().ok()).unwrap_or(1000);
                                    list_response(&s, &bucket, req.q("prefix").unwrap_or(""), max)
                                } else {
                                    let (b, k) = req.bucket_key();
                                    get_response(&s, &b, &k)
                                }
                            }
                        }
                    };
                    let mut out = if chunked > 0 && transport.1.is_none() { format!("HTTP/1.1 {} {}\r\nTransfer-Encoding: chunked\r\nConnection: close\r\n", resp.status, reason(resp.status)) }
                                  else { format!("HTTP/1.1 {} {}\r\nContent-Length: {}\r\nConnection: close\r\n", resp.status, reason(resp.status), resp.body.len()) };
                    for (k, v) in &resp.headers { out.push_str(&format!("{}: {}\r\n", k, v)); }
                    out.push_str("\r\n");
                    let _ = sock.write_all(out.as_bytes()).await;
                    let is_object_ok = resp.status == 200 && resp.headers.iter().any(|(k, _)| k == "Last-Modified");
                    let body: &[u8] = match transport.1 { Some(k) if is_object_ok => &resp.body[..k.min(resp.body.len())], _ => &resp.body[..] };
                    if chunked > 0 && transport.1.is_none() {
                        // HTTP/1.1 chunked transfer coding: size in hex, CRLF, data, CRLF ... 0 CRLF CRLF
                        for piece in body.chunks(chunked) {
                            let _ = sock.write_all(format!("{:x}\r\n", piece.len()).as_bytes()).await;
                            let _ = sock.write_all(piece).await;
                            let _ = sock.write_all(b"\r\n").await;
                        }
                        let _ = sock.write_all(b"0\r\n\r\n").await;
                    }
                    else if transport.0 == 0 { let _ = sock.write_all(body).await; }
                    else {
                        let _ = sock.set_nodelay(true);
                        for piece in body.chunks(transport.0) {
                            let _ = sock.write_all(piece).await;
                            let _ = sock.flush().await;
                            tokio::time::sleep(std::time::Duration::from_millis(1)).await;
                        }
                    }
                    let _ = sock.shutdown().await;
                });
            }
        });
        let sim = Sim { state, handler, port };
        sim.probe_hook().await;
        sim
    }

    /// Once per process: one listing through the library must arrive here.  If it does not, the guarded endpoint
    /// override (MANIFEST.hooks) is no longer in the request path -- a broken harness, not a verdict about the code.
    async fn probe_hook(&self) {
        static DONE: std::sync::atomic::AtomicBool = std::sync::atomic::AtomicBool::new(false);
        if DONE.swap(true, std::sync::atomic::Ordering::SeqCst) { return; }
        let before = self.log_len();
        let _ = nexrad_data::aws::realtime::list_chunks_in_volume("KDMX", nexrad_data::aws::realtime::VolumeIndex::new(1), 1).await;
        if self.log_len() == before {
            eprintln!("TOOL: a listing issued through nexrad-data did not reach the loop-back simulator: the NEXRAD_VERIF_S3_ENDPOINT hook (cfg nexrad_verif, nexrad-data/src/aws/s3.rs) is not in the request path");
            std::process::exit(2);
        }
        self.clear_log();
    }

    pub fn set_handler(&self, h: Option<Handler>) { *self.handler.lock().expect("handler") = h; }
    pub fn put(&self, bucket: &str, key: &str, obj: Obj) { self.state.lock().expect("state").objects.insert(format!("{}/{}", bucket, key), obj); }
    pub fn clear(&self) { let mut s = self.state.lock().expect("state"); s.objects.clear(); s.log.clear(); s.frame = 0; s.cut_body = None; s.chunked = 0; }
    pub fn set_chunked(&self, n: usize) { self.state.lock().expect("state").chunked = n; }
    pub fn set_frame(&self, n: usize) { self.state.lock().expect("state").frame = n; }
    pub fn set_cut_body(&self, k: Option<usize>) { self.state.lock().expect("state").cut_body = k; }
    pub fn clear_log(&self) { self.state.lock().expect("state").log.clear(); }
    pub fn log(&self) -> Vec<Req> { self.state.lock().expect("state").log.clone() }
    pub fn log_len(&self) -> usize { self.state.lock().expect("state").log.len() }
}

pub fn runtime() -> tokio::runtime::Runtime {
    tokio::runtime::Builder::new_current_thread().enable_all().start_paused(true).build().expect("runtime")
}
