//! C09: Sweep::from_radials / Sweep::merge against Sweep.tla.
use crate::common::*;
use nexrad_model::data::{Radial, RadialStatus, Sweep};
use serde_json::{json, Value};

/// A radial whose unique tag travels in the collection timestamp.
pub fn tagged(el: u8, az: u16, id: i64) -> Radial {
    // the status varies with the tag: grouping and merging must not depend on it
    let status = [RadialStatus::IntermediateRadialData, RadialStatus::VolumeScanStart, RadialStatus::ElevationStart, RadialStatus::ElevationEnd,
                  RadialStatus::VolumeScanEnd, RadialStatus::ElevationStartVCPFinal, RadialStatus::IntermediateRadialData][(id.unsigned_abs() % 7) as usize];
    Radial::new(id, az, az as f32 * 0.5, 0.5, status, el, el as f32 * 0.5,
                None, None, None, None, None, None, None)
}

fn project(sweeps: &[Sweep]) -> Value {
    Value::Array(sweeps.iter().map(|s| json!({
        "el": s.elevation_number(),
        "ids": s.radials().iter().map(|r| r.collection_timestamp()).collect::<Vec<_>>(),
        "uniform": s.radials().iter().all(|r| r.elevation_number() == s.elevation_number()),
    })).collect())
}

fn strip_uniform(v: &Value) -> Value {
    Value::Array(v.as_array().map(|a| a.iter().map(|s| json!({"el": s["el"], "ids": s["ids"]})).collect()).unwrap_or_default())
}

fn from_radials(els: &[u64]) -> Result<Value, String> {
    let radials: Vec<Radial> = els.iter().enumerate().map(|(k, e)| tagged(*e as u8, (k % 720) as u16, k as i64 + 1)).collect();
    guarded(|| project(&Sweep::from_radials(radials)))
}

/// Signature of a from_radials disagreement, specific enough that a different failure is a different finding.
fn classify_from(expect: &Value, got: &Value) -> &'static str {
    let e = expect.as_array().cloned().unwrap_or_default();
    let g = got.as_array().cloned().unwrap_or_default();
    if !e.is_empty() && g.len() + 1 == e.len() && g[..] == e[..e.len() - 1] {
        "C09/from_radials/final_run_lost"
    } else if g.len() != e.len() {
        "C09/from_radials/sweep_count"
    } else {
        "C09/from_radials/content"
    }
}

fn merge(ela: u64, a: &[u64], elb: u64, b: &[u64]) -> Result<Value, String> {
    let ra: Vec<Radial> = a.iter().enumerate().map(|(k, az)| tagged(ela as u8, *az as u16, k as i64 + 1)).collect();
    let rb: Vec<Radial> = b.iter().enumerate().map(|(k, az)| tagged(elb as u8, *az as u16, (a.len() + k) as i64 + 1)).collect();
    guarded(|| match Sweep::new(ela as u8, ra).merge(Sweep::new(elb as u8, rb)) {
        Ok(s) => json!({"err": false, "el": s.elevation_number(), "ids": s.radials().iter().map(|r| r.collection_timestamp()).collect::<Vec<_>>()}),
        Err(_) => json!({"err": true, "ids": []}),
    })
}

pub fn run(args: &Args) {
    match args.mode.as_str() {
        "replay" => replay(args),
        "record" => record(args),
        m => { eprintln!("sweep: unknown mode {m}"); std::process::exit(2) }
    }
}

fn replay(args: &Args) {
    let vectors = read_ndjson(args.input.as_deref().unwrap_or(""));
    let mut res = Results::create(args.out.as_deref().unwrap_or(""));
    for v in &vectors {
        match v["k"].as_str().unwrap_or("") {
            "from" => {
                let els = u64s(&v["els"]);
                res.case(hash_value(v), els.len() >= 1);
                match from_radials(&els) {
                    Err(p) => res.mismatch("violation", "C09/from_radials/panic", p, v.clone()),
                    Ok(got) => {
                        let uniform = got.as_array().map(|a| a.iter().all(|s| s["uniform"] == json!(true))).unwrap_or(true);
                        let got = strip_uniform(&got);
                        if got != v["expect"] {
                            res.mismatch("violation", classify_from(&v["expect"], &got), format!("expected {} got {}", v["expect"], got), v.clone());
                        } else if !uniform {
                            res.mismatch("violation", "C09/from_radials/label", "sweep label differs from its radials".into(), v.clone());
                        }
                        if els.len() == 4 { res.sample(json!({"vector": v, "got": got})); }
                    }
                }
            }
            "merge" => {
                let (a, b) = (u64s(&v["a"]), u64s(&v["b"]));
                res.case(hash_value(v), a.len() + b.len() >= 2);
                match merge(v["ela"].as_u64().unwrap_or(0), &a, v["elb"].as_u64().unwrap_or(0), &b) {
                    Err(p) => res.mismatch("violation", "C09/merge/panic", p, v.clone()),
                    Ok(got) => {
                        let exp_err = v["err"] == json!(true);
                        if got["err"] != json!(exp_err) {
                            res.mismatch("violation", "C09/merge/error_contract", format!("expected err={} got {}", exp_err, got), v.clone());
                        } else if !exp_err && (got["ids"] != v["ids"] || got["el"] != v["ela"]) {
                            res.mismatch("violation", "C09/merge/order", format!("expected ids {} got {}", v["ids"], got), v.clone());
                        }
                    }
                }
            }
            _ => {}
        }
    }
    res.finish();
}

/// Elevation patterns the statement names: runs, SAILS-like repeats, alternating, random, 0 and 255.
pub fn gen_elevations(rng: &mut Rng, max_len: usize) -> Vec<u64> {
    let n = match rng.below(8) { 0 => 0, 1 => 1, 2 => rng.range(2, 5) as usize, _ => rng.range(1, max_len as u64) as usize };
    let mut els = Vec::with_capacity(n);
    match rng.below(5) {
        0 => { let e = rng.below(256); els.resize(n, e); }
        1 => { for k in 0..n { els.push(if k % 2 == 0 { 1 } else { 2 }); } }
        2 => { for _ in 0..n { els.push(rng.below(256)); } }
        3 => { for _ in 0..n { els.push(*rng.pick(&[0u64, 255, 1])); } }
        _ => {
            // SAILS-like: 1,2,1,3,... with random run lengths
            let pat = [1u64, 2, 1, 3, 4, 1, 5, 255, 0];
            let mut p = 0;
            while els.len() < n {
                let run = rng.range(1, 1 + (n as u64 / 4).max(1)) as usize;
                for _ in 0..run.min(n - els.len()) { els.push(pat[p % pat.len()]); }
                p += 1;
            }
        }
    }
    els
}

fn record(args: &Args) {
    let mut rng = Rng::new(args.seed);
    let mut tr = TraceOut::create(args.out.as_deref().unwrap_or(""));
    let mut res = Results::create(args.res.as_deref().unwrap_or(""));
    let (rounds, max_len, big) = if args.thorough { (300, 400, 12) } else { (60, 150, 2) };
    for round in 0..rounds + big + 2 {
        // the last two inputs are runs far longer than a real sweep (a sweep has at most 720 radials): 1,500 radials of one
        // elevation, and 800 + 900 of two
        let els = if round < rounds { gen_elevations(&mut rng, max_len) } else if round < rounds + big { gen_elevations(&mut rng, 2000) }
                  else if round == rounds + big { vec![7u64; 1500] } else { let mut v = vec![3u64; 800]; v.extend(vec![4u64; 900]); v };
        res.case(fnv(format!("{:?}", els).as_bytes()), els.len() >= 2);
        tr.ev(json!({"ev": "input", "els": els}));
        match from_radials(&els) {
            Err(p) => { tr.ev(json!({"ev": "panic"})); res.mismatch("violation", "C09/from_radials/panic", p, json!({"els": els})); }
            Ok(got) => {
                for s in got.as_array().cloned().unwrap_or_default() {
                    tr.ev(json!({"ev": "sweep", "el": s["el"], "ids": s["ids"], "uniform": s["uniform"]}));
                }
                tr.ev(json!({"ev": "end"}));
            }
        }
    }
    let merges = if args.thorough { 160 } else { 80 };
    for _ in 0..merges {
        let big = args.thorough && rng.chance(1, 20);
        let cap = if big { 721 } else { 120 };
        let (na, nb) = (rng.below(cap) as usize, rng.below(cap) as usize);
        let span = *rng.pick(&[3u64, 20, 720, 65536]);
        let a: Vec<u64> = (0..na).map(|_| rng.below(span)).collect();
        let b: Vec<u64> = (0..nb).map(|_| rng.below(span)).collect();
        let ela = rng.below(256);
        let elb = if rng.chance(1, 4) { (ela + 1 + rng.below(255)) % 256 } else { ela };
        res.case(fnv(format!("{:?}{:?}{}{}", a, b, ela, elb).as_bytes()), na + nb >= 2);
        match merge(ela, &a, elb, &b) {
            Err(p) => res.mismatch("violation", "C09/merge/panic", p, json!({"a": a, "b": b})),
            Ok(got) => tr.ev(json!({"ev": "merge", "ela": ela, "a": a, "elb": elb, "b": b, "err": got["err"], "ids": got["ids"]})),
        }
    }
    tr.finish();
    res.finish();
}
