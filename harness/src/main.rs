//! vdrive: conformance driver binding the TLA+ specification in /verif/spec to the crates built
//! from /repo's working tree.  `replay` feeds TLC-generated vectors into the real public API;
//! `record` drives the real code and writes ndjson events for TLC trace validation.
mod cfm;
mod chunkid;
mod coded;
mod common;
mod container;
mod datetime;
mod drd;
mod icd;
mod estimate;
mod frames;
mod latest;
mod msghdr;
mod poll;
mod radial;
mod rda;
mod s3;
mod scan;
mod search;
mod sim;
mod summary;
mod sweep;
mod total;
mod vcp;

use common::Args;

#[global_allocator]
static ALLOC: total::Counting = total::Counting;

fn main() {
    common::quiet_panics();
    let args = Args::parse();
    common::watchdog(std::env::var("VERIF_WATCHDOG").ok().and_then(|s| s.parse().ok()).unwrap_or(1500));
    match args.module.as_str() {
        "sweep" => sweep::run(&args),
        "poll" => poll::run(&args),
        "s3" => s3::run(&args),
        "total" => total::run(&args),
        "scan" => scan::run(&args),
        "radial" => radial::run(&args),
        "container" => container::run(&args),
        "totalc" => container::run_total(&args),
        "summary" => summary::run(&args),
        "cfm" => cfm::run(&args),
        "rda" => rda::run(&args),
        "vcp" => vcp::run(&args),
        "frames" => frames::run(&args),
        "datetime" => datetime::run(&args),
        "msghdr" => msghdr::run(&args),
        "drd" => drd::run(&args),
        "estimate" => estimate::run(&args),
        "chunkid" => chunkid::run(&args),
        "search" => search::run(&args),
        "latest" => latest::run(&args),
        "coded" => coded::run(&args),
        m => {
            eprintln!("unknown module {m}");
            std::process::exit(2);
        }
    }
}
