//! Shared driver plumbing: arguments, result file, deterministic RNG, panic capture.
use serde_json::{json, Value};
use std::collections::HashSet;
use std::fs::File;
use std::io::{BufRead, BufReader, BufWriter, Write};
use std::panic::{catch_unwind, AssertUnwindSafe};

pub struct Args {
    pub module: String,
    pub mode: String,
    pub input: Option<String>,
    pub out: Option<String>,
    pub res: Option<String>,
    pub seed: u64,
    pub thorough: bool,
    pub rest: Vec<String>,
}

impl Args {
    pub fn parse() -> Args {
        let v: Vec<String> = std::env::args().collect();
        if v.len() < 3 {
            eprintln!("usage: vdrive <module> <replay|record|...> [--in f] [--out f] [--res f] [--seed n] [--tier quick|thorough]");
            std::process::exit(2);
        }
        let mut a = Args {
            module: v[1].clone(),
            mode: v[2].clone(),
            input: None,
            out: None,
            res: None,
            seed: 1,
            thorough: false,
            rest: vec![],
        };
        let mut i = 3;
        while i < v.len() {
            match v[i].as_str() {
                "--in" => { a.input = Some(v[i + 1].clone()); i += 2; }
                "--out" => { a.out = Some(v[i + 1].clone()); i += 2; }
                "--res" => { a.res = Some(v[i + 1].clone()); i += 2; }
                "--seed" => { a.seed = v[i + 1].parse().unwrap_or(1); i += 2; }
                "--tier" => { a.thorough = v[i + 1] == "thorough"; i += 2; }
                _ => { a.rest.push(v[i].clone()); i += 1; }
            }
        }
        a
    }

    pub fn flag(&self, name: &str) -> Option<String> {
        let mut it = self.rest.iter();
        while let Some(x) = it.next() {
            if x == name {
                return it.next().cloned();
            }
        }
        None
    }
}

pub fn read_ndjson(path: &str) -> Vec<Value> {
    let f = File::open(path).unwrap_or_else(|e| { eprintln!("cannot open {path}: {e}"); std::process::exit(2) });
    BufReader::new(f)
        .lines()
        .map_while(|l| l.ok())
        .filter(|l| !l.trim().is_empty())
        .map(|l| serde_json::from_str(&l).unwrap_or_else(|e| { eprintln!("bad json line: {e}"); std::process::exit(2) }))
        .collect()
}

/// Result file of a replay/record run: mismatch lines followed by one summary line.
pub struct Results {
    w: BufWriter<File>,
    pub cases: u64,
    pub validated: u64,
    distinct: HashSet<u64>,
    pub samples: Vec<Value>,
    pub mismatches: u64,
    per_sig: std::collections::HashMap<String, u64>,
    pub extra: serde_json::Map<String, Value>,
}

impl Results {
    pub fn create(path: &str) -> Results {
        let f = File::create(path).unwrap_or_else(|e| { eprintln!("cannot create {path}: {e}"); std::process::exit(2) });
        Results { w: BufWriter::new(f), cases: 0, validated: 0, distinct: HashSet::new(), samples: vec![], mismatches: 0, per_sig: Default::default(), extra: Default::default() }
    }

    /// Count one explored case; `key` identifies the abstract case, `nontrivial` by the module's rule.
    pub fn case(&mut self, key: u64, nontrivial: bool) {
        self.cases += 1;
        self.validated += 1;
        if nontrivial {
            self.distinct.insert(key);
        }
    }

    pub fn sample(&mut self, v: Value) {
        if self.samples.len() < 3 {
            self.samples.push(v);
        }
    }

    /// kind: "violation" (property-level observable) or "drift" (implementation-shaped detail).
    pub fn mismatch(&mut self, kind: &str, sig: &str, detail: String, case: Value) {
        self.mismatches += 1;
        let n = self.per_sig.entry(sig.to_string()).or_insert(0);
        *n += 1;
        if *n <= 3 {
            let _ = writeln!(self.w, "{}", json!({"t": "mismatch", "kind": kind, "sig": sig, "detail": detail, "case": case}));
        }
    }

    pub fn finish(mut self) {
        let per_sig: serde_json::Map<String, Value> = self.per_sig.iter().map(|(k, v)| (k.clone(), json!(v))).collect();
        self.extra.insert("mismatch_counts".into(), Value::Object(per_sig));
        let _ = writeln!(self.w, "{}", json!({"t": "summary", "cases": self.cases, "validated": self.validated,
            "distinct_nontrivial": self.distinct.len(), "samples": self.samples, "extra": self.extra}));
        let _ = self.w.flush();
    }
}

pub struct TraceOut {
    w: BufWriter<File>,
    pub n: u64,
}

impl TraceOut {
    pub fn create(path: &str) -> TraceOut {
        let f = File::create(path).unwrap_or_else(|e| { eprintln!("cannot create {path}: {e}"); std::process::exit(2) });
        TraceOut { w: BufWriter::with_capacity(1 << 20, f), n: 0 }
    }
    pub fn ev(&mut self, v: Value) {
        let _ = writeln!(self.w, "{}", v);
        self.n += 1;
    }
    pub fn finish(mut self) {
        let _ = self.w.flush();
    }
}

/// splitmix64: deterministic, seedable, dependency-free.
pub struct Rng(pub u64);

impl Rng {
    pub fn new(seed: u64) -> Rng { Rng(seed.wrapping_mul(0x9E3779B97F4A7C15).wrapping_add(0x1234_5678_9ABC_DEF1)) }
    pub fn next(&mut self) -> u64 {
        self.0 = self.0.wrapping_add(0x9E3779B97F4A7C15);
        let mut z = self.0;
        z = (z ^ (z >> 30)).wrapping_mul(0xBF58476D1CE4E5B9);
        z = (z ^ (z >> 27)).wrapping_mul(0x94D049BB133111EB);
        z ^ (z >> 31)
    }
    pub fn below(&mut self, n: u64) -> u64 { if n == 0 { 0 } else { self.next() % n } }
    pub fn range(&mut self, lo: u64, hi: u64) -> u64 { lo + self.below(hi - lo + 1) }
    pub fn chance(&mut self, num: u64, den: u64) -> bool { self.below(den) < num }
    pub fn pick<'a, T>(&mut self, xs: &'a [T]) -> &'a T { &xs[self.below(xs.len() as u64) as usize] }
    pub fn bytes(&mut self, n: usize) -> Vec<u8> { (0..n).map(|_| self.next() as u8).collect() }
}

/// A reader over a byte slice that honours the `Read` contract in the least convenient way: every `read`
/// delivers between 1 and 7 bytes (seeded), however large the buffer.  What a decoder returns must not depend
/// on how its reader chunks the bytes (the transport dimension of Wire.tla: ChunkInvariance).
pub struct Dribble<'a> { data: &'a [u8], pos: u64, state: Rng }
impl<'a> Dribble<'a> {
    pub fn new(data: &'a [u8]) -> Dribble<'a> { Dribble { data, pos: 0, state: Rng::new(fnv(&data[..data.len().min(64)]) ^ data.len() as u64) } }
    pub fn position(&self) -> u64 { self.pos }
}
impl<'a> std::io::Read for Dribble<'a> {
    fn read(&mut self, buf: &mut [u8]) -> std::io::Result<usize> {
        let start = (self.pos as usize).min(self.data.len());
        let n = buf.len().min(self.data.len() - start).min(1 + self.state.below(7) as usize);
        buf[..n].copy_from_slice(&self.data[start..start + n]);
        self.pos += n as u64;
        Ok(n)
    }
}
impl<'a> std::io::Seek for Dribble<'a> {
    fn seek(&mut self, to: std::io::SeekFrom) -> std::io::Result<u64> {
        let (base, off) = match to { std::io::SeekFrom::Start(n) => { self.pos = n; return Ok(n) } std::io::SeekFrom::End(o) => (self.data.len() as u64, o), std::io::SeekFrom::Current(o) => (self.pos, o) };
        match base.checked_add_signed(off) { Some(n) => { self.pos = n; Ok(n) } None => Err(std::io::Error::new(std::io::ErrorKind::InvalidInput, "seek before start")) }
    }
}
/// catch_unwind for an async call of the library: a panic while the future is polled is data, not a crash of the driver.
pub struct Guarded<F>(pub std::pin::Pin<Box<F>>);
pub fn guarded_async<F: std::future::Future>(f: F) -> Guarded<F> { Guarded(Box::pin(f)) }
impl<F: std::future::Future> std::future::Future for Guarded<F> {
    type Output = Result<F::Output, String>;
    fn poll(mut self: std::pin::Pin<&mut Self>, cx: &mut std::task::Context<'_>) -> std::task::Poll<Self::Output> {
        let inner = self.0.as_mut();
        match std::panic::catch_unwind(std::panic::AssertUnwindSafe(|| inner.poll(cx))) {
            Ok(std::task::Poll::Ready(v)) => std::task::Poll::Ready(Ok(v)),
            Ok(std::task::Poll::Pending) => std::task::Poll::Pending,
            Err(p) => std::task::Poll::Ready(Err(p.downcast_ref::<String>().cloned().or_else(|| p.downcast_ref::<&str>().map(|s| s.to_string())).unwrap_or_else(|| "panic".into()))),
        }
    }
}

/// Half of the inputs (by content hash) go through the dribbling reader.
pub fn dribbled(bytes: &[u8]) -> bool { (fnv(bytes) >> 7) % 2 == 1 }

pub fn fnv(bytes: &[u8]) -> u64 {
    let mut h: u64 = 0xcbf29ce484222325;
    for b in bytes {
        h ^= *b as u64;
        h = h.wrapping_mul(0x100000001b3);
    }
    h
}

pub fn hash_value(v: &Value) -> u64 { fnv(v.to_string().as_bytes()) }

/// Run `f`, turning a panic into data.  The panic hook is silenced once at start-up.
pub fn guarded<T>(f: impl FnOnce() -> T) -> Result<T, String> {
    catch_unwind(AssertUnwindSafe(f)).map_err(|e| {
        if let Some(s) = e.downcast_ref::<&str>() { s.to_string() }
        else if let Some(s) = e.downcast_ref::<String>() { s.clone() }
        else { "panic".to_string() }
    })
}

pub fn quiet_panics() {
    std::panic::set_hook(Box::new(|_| {}));
}

pub fn u64s(v: &Value) -> Vec<u64> {
    v.as_array().map(|a| a.iter().map(|x| x.as_u64().unwrap_or(0)).collect()).unwrap_or_default()
}

use std::sync::atomic::{AtomicU64, Ordering as AtomicOrdering};
static LAST_PROGRESS: AtomicU64 = AtomicU64::new(0);
static CURRENT_CASE: std::sync::Mutex<String> = std::sync::Mutex::new(String::new());
fn now_secs() -> u64 { std::time::SystemTime::now().duration_since(std::time::UNIX_EPOCH).map(|d| d.as_secs()).unwrap_or(0) }

/// Note which case is being executed (kept in memory; written out only if the watchdog fires).
pub fn progress(what: impl FnOnce() -> String) {
    LAST_PROGRESS.store(now_secs(), AtomicOrdering::Relaxed);
    if let Ok(mut c) = CURRENT_CASE.try_lock() { *c = what(); }
}

/// Wall-clock watchdog.  When it fires it writes {"stuck_for": seconds since the last progress() call,
/// "current": the case in flight} to $VERIF_PROGRESS and exits 3: the orchestrator reports a HANG of the
/// code under test when one case was stuck for minutes, a tool error when the run was merely slow.
pub fn watchdog(secs: u64) {
    LAST_PROGRESS.store(now_secs(), AtomicOrdering::Relaxed);
    let cap: usize = std::env::var("VERIF_MEMCAP_MB").ok().and_then(|s| s.parse::<usize>().ok()).unwrap_or(8192) << 20;
    std::thread::spawn(move || {
        let start = std::time::Instant::now();
        // also a memory guard: a case under which the live heap of the driver passes the cap (8 GiB; the largest legitimate
        // case stays below 1 GiB) is reported like a hang, with the case in flight, before the machine runs out of memory
        let mut runaway = 0usize;
        while start.elapsed().as_secs() < secs {
            std::thread::sleep(std::time::Duration::from_millis(200));
            let live = crate::total::CURRENT.load(AtomicOrdering::Relaxed);
            if live > cap { runaway = live; break; }
        }
        let stuck = now_secs().saturating_sub(LAST_PROGRESS.load(AtomicOrdering::Relaxed));
        let cur = CURRENT_CASE.lock().map(|c| c.clone()).unwrap_or_default();
        if let Ok(path) = std::env::var("VERIF_PROGRESS") { let _ = std::fs::write(path, serde_json::json!({"stuck_for": stuck, "current": cur, "watchdog_secs": secs, "memory_runaway": runaway}).to_string()); }
        if runaway > 0 { eprintln!("WATCHDOG: live heap {runaway} bytes while on {cur}"); } else { eprintln!("WATCHDOG: driver exceeded {secs}s of wall-clock time (stuck for {stuck}s on {cur})"); }
        std::process::exit(3);
    });
}
