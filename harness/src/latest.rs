//! C15 (entry point): the real get_latest_volume against the loop-back S3 simulator.
use crate::common::*;
use crate::sim::*;
use chrono::{Duration, TimeZone, Utc};
use nexrad_data::aws::realtime::get_latest_volume;
use serde_json::json;

const N: u64 = 999;

pub fn run(args: &Args) {
    if args.mode != "record" { eprintln!("latest: only record"); std::process::exit(2); }
    let mut rng = Rng::new(args.seed);
    let mut shapes: Vec<(u64, u64)> = Vec::new(); // (p index 0..998, k)
    for &p in &[0u64, 1, 499, 997, 998] {
        for &k in &[0u64, 1, 2, 998, 999] { shapes.push((p, k)); }
    }
    let extra = if args.thorough { 600 } else { 25 };
    for _ in 0..extra { shapes.push((rng.below(N), rng.below(N + 1))); }
    let mut tr = TraceOut::create(args.out.as_deref().unwrap_or(""));
    let mut res = Results::create(args.res.as_deref().unwrap_or(""));
    let rt = runtime();
    rt.block_on(async {
        let sim = Sim::start().await;
        let past = Utc.with_ymd_and_hms(2024, 1, 1, 0, 0, 0).single().expect("base");
        for (n_shape, (p, k)) in shapes.into_iter().enumerate() {
            // every fifth bucket is stamped AHEAD of this machine's clock (uploader clock ahead / caller clock slow):
            // "most recently uploaded" does not depend on the caller's clock
            let base = if n_shape % 5 == 4 { Utc::now() + Duration::days(2) - Duration::minutes(1000) } else { past };
            sim.clear();
            // real bucket content: one first chunk per populated directory; directory v (1..=999) is index v-1,
            // rank r uploaded at base + r minutes.  Listing uses the simulator's genuine prefix semantics.
            sim.set_handler(None);
            for i in 0..N {
                let d = (p + N - i) % N;
                if d < k {
                    let t = base + Duration::minutes((k - d) as i64);
                    sim.put("unidata-nexrad-level2-chunks", &format!("KDMX/{}/{}-001-S", i + 1, t.format("%Y%m%d-%H%M%S")),
                            Obj { data: vec![0; 8], last_modified: t, lm_text: None, size_text: None });
                }
            }
            res.case(p * 1000 + k, k >= 1 && k < N);
            let out = guarded_async(get_latest_volume("KDMX")).await;
            let lists = sim.log().iter().filter(|r| r.is_list()).count();
            match out {
                Ok(Ok(r)) => tr.ev(json!({"ep": 1, "n": N, "p": p, "k": k, "vol": r.volume.map(|v| v.as_number()).unwrap_or(0), "calls": r.calls, "counted": lists})),
                Ok(Err(e)) => res.mismatch("violation", "C15/get_latest_volume/error", format!("{e:?}"), json!({"p": p, "k": k})),
                Err(msg) => res.mismatch("violation", "C15/get_latest_volume/panic", msg, json!({"p": p, "k": k})),
            }
        }
        // two discoveries at once (different sites, one runtime): each reports the listings IT issued, whatever else the
        // process is doing meanwhile; both results are judged like any other
        let pairs = if args.thorough { 40 } else { 6 };
        for n_pair in 0..pairs {
            sim.clear();
            sim.set_handler(None);
            let shapes2 = [(rng.below(N), 1 + rng.below(N)), (rng.below(N), if n_pair % 3 == 0 { 1 } else { 1 + rng.below(40) })];
            for (site, (p, k)) in ["KDMX", "KTLX"].iter().zip(shapes2.iter()) {
                for i in 0..N {
                    let d = (p + N - i) % N;
                    if d < *k {
                        let t = past + Duration::minutes((k - d) as i64);
                        sim.put("unidata-nexrad-level2-chunks", &format!("{}/{}/{}-001-S", site, i + 1, t.format("%Y%m%d-%H%M%S")), Obj { data: vec![0; 8], last_modified: t, lm_text: None, size_text: None });
                    }
                }
            }
            let (ra, rb) = tokio::join!(guarded_async(get_latest_volume("KDMX")), guarded_async(get_latest_volume("KTLX")));
            for (site, (p, k), r) in [("KDMX", shapes2[0], ra), ("KTLX", shapes2[1], rb)] {
                res.case(p * 1000 + k + 7_000_000 + n_pair as u64, true);
                let lists = sim.log().iter().filter(|q| q.is_list() && q.q("prefix").map(|x| x.starts_with(site)).unwrap_or(false)).count();
                match r {
                    Ok(Ok(r)) => tr.ev(json!({"ep": 1, "n": N, "p": p, "k": k, "vol": r.volume.map(|v| v.as_number()).unwrap_or(0), "calls": r.calls, "counted": lists, "concurrent": true})),
                    Ok(Err(e)) => res.mismatch("violation", "C15/get_latest_volume/error", format!("{e:?}"), json!({"p": p, "k": k, "concurrent": true})),
                    Err(msg) => res.mismatch("violation", "C15/get_latest_volume/panic", msg, json!({"p": p, "k": k, "concurrent": true})),
                }
            }
        }
    });
    res.sample(json!({"entry": "get_latest_volume", "bucket": "simulated, 999 directories", "note": "shape = (newest index p, populated count k); volume number = index + 1"}));
    tr.finish();
    res.finish();
}
