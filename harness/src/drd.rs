//! C02 (and building blocks for C01/C03/C04/C07): type-31 messages against Drd.tla.
use crate::common::*;
use crate::icd::*;
use nexrad_decode::messages::digital_radar_data::decode_digital_radar_data;
use serde_json::{json, Value};
use std::io::Cursor;

pub struct Block { pub p: String, pub rec: Fields, pub gates: Vec<u8>, pub gap: usize }

/// Lays a type-31 message out exactly like Drd.tla's EncodeDrd: header, pointer table in `ptrs`
/// order (indices into `blocks`, 0-based), blocks in file order each preceded by `gap` bytes of 238.
pub fn build_message(l: &Layouts, hdr: &Fields, blocks: &[Block], ptrs: &[usize]) -> Vec<u8> {
    let mut hdr = hdr.clone();
    hdr.insert("data_block_count".into(), (ptrs.len() as u16).to_be_bytes().to_vec());
    let mut out = l.get("drd_header").encode(&hdr);
    let body_start = out.len() + 4 * ptrs.len();
    let mut starts = Vec::new();
    let mut at = body_start;
    for b in blocks {
        at += b.gap;
        starts.push(at);
        at += l.get(block_layout(&b.p)).size() + b.gates.len();
    }
    for &k in ptrs { out.extend_from_slice(&(starts[k] as u32).to_be_bytes()); }
    for b in blocks {
        out.extend(std::iter::repeat(238u8).take(b.gap));
        out.extend_from_slice(&l.get(block_layout(&b.p)).encode(&b.rec));
        out.extend_from_slice(&b.gates);
    }
    out
}

/// A random block of product p: arbitrary field bytes, structural fields set.
pub fn random_block(l: &Layouts, rng: &mut Rng, p: &str, gates: usize, word: u8, gap: usize) -> Block {
    let mut rec = l.get(block_layout(p)).random(rng);
    rec.insert("data_block_type".into(), vec![if is_moment(p) { b'D' } else { b'R' }]);
    rec.insert("data_name".into(), block_name(p).to_vec());
    let mut g = Vec::new();
    if is_moment(p) {
        rec.insert("number_of_data_moment_gates".into(), (gates as u16).to_be_bytes().to_vec());
        rec.insert("data_word_size".into(), vec![word]);
        g = rng.bytes(gates * (word as usize / 8));
    }
    Block { p: p.to_string(), rec, gates: g, gap }
}

fn blocks_big(rng: &mut Rng) -> bool { rng.chance(1, 6) }

pub struct Decoded { pub out: &'static str, pub hdr: Value, pub prod: Value, pub end: u64, pub detail: String }

pub fn decode(bytes: &[u8]) -> Decoded {
    let (r, end) = if dribbled(bytes) { let mut cur = Dribble::new(bytes); let r = guarded(|| decode_digital_radar_data(&mut cur)); (r, cur.position()) }
                   else { let mut cur = Cursor::new(bytes); let r = guarded(|| decode_digital_radar_data(&mut cur)); (r, cur.position()) };
    match r {
        Err(p) => Decoded { out: "panic", hdr: json!({}), prod: json!({}), end, detail: p },
        Ok(Err(e)) => Decoded { out: "err", hdr: json!({}), prod: json!({}), end, detail: format!("{e:?}") },
        Ok(Ok(m)) => Decoded { out: "ok", hdr: fields_json(&drd_header(&m.header)), prod: drd_products(&m), end, detail: String::new() },
    }
}

fn compare(res: &mut Results, v: &Value, d: &Decoded) {
    if d.out != "ok" {
        res.mismatch("violation", if d.out == "panic" { "C02/decode/panic" } else { "C02/decode/error_on_wellformed" }, d.detail.clone(), json!({"bytes": v["bytes"], "order": v["order"], "ptrs": v["ptrs"]}));
        return;
    }
    let small = json!({"bytes": v["bytes"], "order": v["order"], "ptrs": v["ptrs"]});
    for (k, want) in v["hdr"].as_object().cloned().unwrap_or_default() {
        if d.hdr[&k] != want { res.mismatch("violation", &format!("C02/header/{k}"), format!("expected {} got {}", want, d.hdr[&k]), small.clone()); }
    }
    for p in PRODUCTS {
        let (want, got) = (&v["prod"][p], &d.prod[p]);
        if want["absent"] != got["absent"] { res.mismatch("violation", &format!("C02/block/{p}/presence"), format!("expected absent={} got absent={}", want["absent"], got["absent"]), small.clone()); continue; }
        if want["absent"] == json!(true) { continue; }
        for (k, w) in want["rec"].as_object().cloned().unwrap_or_default() {
            if got["rec"][&k] != w { res.mismatch("violation", &format!("C02/block/{p}/{k}"), format!("expected {} got {}", w, got["rec"][&k]), small.clone()); }
        }
        if want["gates"] != got["gates"] { res.mismatch("violation", &format!("C02/block/{p}/gates"), format!("expected {} gate bytes, got {}", want["gates"].as_array().map(|a| a.len()).unwrap_or(0), got["gates"].as_array().map(|a| a.len()).unwrap_or(0)), small.clone()); }
    }
    if Some(d.end) != v["end"].as_u64() { res.mismatch("drift", "C02/reader_end", format!("spec {} code {}", v["end"], d.end), small); }
}

/// The same message somewhere inside a longer stream: `at` filler bytes in front, the reader positioned on the message.
/// Pointers are relative to the message, so the result must not depend on where the message sits.
pub fn decode_at(bytes: &[u8], at: usize) -> Decoded {
    let mut buf = vec![0xEEu8; at];
    buf.extend_from_slice(bytes);
    let mut cur = Cursor::new(&buf[..]);
    cur.set_position(at as u64);
    let r = guarded(|| decode_digital_radar_data(&mut cur));
    let end = cur.position().saturating_sub(at as u64);
    match r {
        Err(p) => Decoded { out: "panic", hdr: json!({}), prod: json!({}), end, detail: p },
        Ok(Err(e)) => Decoded { out: "err", hdr: json!({}), prod: json!({}), end, detail: format!("{e:?}") },
        Ok(Ok(m)) => Decoded { out: "ok", hdr: fields_json(&drd_header(&m.header)), prod: drd_products(&m), end, detail: String::new() },
    }
}
/// Offsets at which an absolute stream position can coincide with a message-relative pointer: the gaps of the layout, and 28
/// (where a type-31 body starts inside a framed stream).
fn embed_offsets(gaps: &[usize]) -> Vec<usize> { let mut o: Vec<usize> = gaps.iter().copied().filter(|g| *g > 0).collect(); o.push(28); o.sort(); o.dedup(); o.truncate(3); o }
fn position_independent(res: &mut Results, bytes: &[u8], gaps: &[usize], d: &Decoded, small: Value) {
    for at in embed_offsets(gaps) {
        let e = decode_at(bytes, at);
        if e.out != d.out || e.hdr != d.hdr || e.prod != d.prod || (d.out == "ok" && e.end != d.end) {
            res.mismatch("violation", "C02/position_dependent", format!("decoded differently when the message starts at stream offset {at}: {} vs {} {}", e.out, d.out, e.detail), small.clone());
            return;
        }
    }
}

pub fn bytes_of(v: &Value) -> Vec<u8> { v.as_array().map(|a| a.iter().map(|x| x.as_u64().unwrap_or(0) as u8).collect()).unwrap_or_default() }

pub fn run(args: &Args) {
    let l = Layouts::load();
    match args.mode.as_str() {
        "replay" => {
            let vectors = read_ndjson(args.input.as_deref().unwrap_or(""));
            let mut res = Results::create(args.out.as_deref().unwrap_or(""));
            let mut reenc_bad = 0u64;
            for v in &vectors {
                let bytes = bytes_of(&v["bytes"]);
                let nblocks = v["order"].as_array().map(|a| a.len()).unwrap_or(0);
                res.case(fnv(&bytes), nblocks >= 1);
                let d = decode(&bytes);
                compare(&mut res, v, &d);
                position_independent(&mut res, &bytes, &v["gaps"].as_array().map(|a| a.iter().map(|g| g.as_u64().unwrap_or(0) as usize).collect::<Vec<_>>()).unwrap_or_default(), &d, json!({"bytes": v["bytes"], "order": v["order"], "gaps": v["gaps"]}));
                // cross-check of the driver's table-driven encoder: re-encode the abstract form, must be byte-identical
                if let (Some(order), Some(gaps)) = (v["order"].as_array(), v["gaps"].as_array()) {
                    let hdr = fields_from_json(&v["hdr"]);
                    let blocks: Vec<Block> = order.iter().zip(gaps).map(|(p, g)| {
                        let p = p.as_str().unwrap_or("");
                        Block { p: p.to_string(), rec: fields_from_json(&v["prod"][p]["rec"]), gates: bytes_of(&v["prod"][p]["gates"]), gap: g.as_u64().unwrap_or(0) as usize }
                    }).collect();
                    let ptrs: Vec<usize> = u64s(&v["ptrs"]).iter().map(|x| *x as usize - 1).collect();
                    if build_message(&l, &hdr, &blocks, &ptrs) != bytes { reenc_bad += 1; }
                }
                if nblocks == 2 { res.sample(json!({"bytes": v["bytes"], "order": v["order"], "ptrs": v["ptrs"], "decoded_ok": d.out})); }
            }
            res.extra.insert("encoder_crosscheck_failures".into(), json!(reenc_bad));
            if reenc_bad > 0 { eprintln!("driver encoder disagrees with TLC's EncodeDrd on {reenc_bad} vectors"); std::process::exit(2); }
            res.finish();
        }
        "record" => {
            let mut rng = Rng::new(args.seed);
            let mut tr = TraceOut::create(args.out.as_deref().unwrap_or(""));
            let mut res = Results::create(args.res.as_deref().unwrap_or(""));
            let n = if args.thorough { 1500 } else { 250 };
            let gate_choices: [usize; 16] = [0, 1, 2, 3, 100, 460, 920, 1192, 1840, 1841, 2500, 4000, 4095, 4096, 8192, 65535];
            for k in 0..n {
                let mut prods: Vec<&str> = PRODUCTS.iter().copied().filter(|_| rng.chance(3, 5)).collect();
                if k % 10 == 0 { prods = PRODUCTS.to_vec(); }
                // file order: a random permutation
                for i in (1..prods.len()).rev() { let j = rng.below(i as u64 + 1) as usize; prods.swap(i, j); }
                let big = k % 25 == 3;
                let blocks: Vec<Block> = prods.iter().map(|p| {
                    let g = if big { if blocks_big(&mut rng) { *rng.pick(&gate_choices[12..]) } else { *rng.pick(&gate_choices[..12]) } } else { *rng.pick(&gate_choices[..6]) };
                    let w = if rng.chance(1, 3) || matches!(*p, "PHI") { 16 } else { 8 };
                    let gap = *rng.pick(&[0usize, 0, 1, 3, 7, 28]);
                    random_block(&l, &mut rng, p, g, w, gap)
                }).collect();
                // every fourth message: the declared size (lrtup) of each volume / elevation / radial block is its real size plus the
                // gap that follows it, i.e. it names exactly where the next block starts (a block "padded out to its declared size")
                let mut blocks = blocks;
                if k % 4 == 1 { for i in 0..blocks.len() { if !is_moment(&blocks[i].p) { let next_gap = blocks.get(i + 1).map(|b| b.gap).unwrap_or(0); let sz = l.get(block_layout(&blocks[i].p)).size() + next_gap; blocks[i].rec.insert("lrtup".into(), (sz as u16).to_be_bytes().to_vec()); } } }
                let mut ptrs: Vec<usize> = (0..blocks.len()).collect();
                if rng.chance(1, 2) { for i in (1..ptrs.len()).rev() { let j = rng.below(i as u64 + 1) as usize; ptrs.swap(i, j); } }
                let hdr = l.get("drd_header").random(&mut rng);
                let bytes = build_message(&l, &hdr, &blocks, &ptrs);
                res.case(fnv(&bytes), !blocks.is_empty());
                let d = decode(&bytes);
                position_independent(&mut res, &bytes, &blocks.iter().map(|b| b.gap).collect::<Vec<_>>(), &d, json!({"bytes": bytes, "gaps": blocks.iter().map(|b| b.gap).collect::<Vec<_>>()}));
                tr.ev(json!({"bytes": bytes, "out": d.out, "hdr": d.hdr, "prod": d.prod, "end": d.end}));
                if k == 1 { res.sample(json!({"blocks_in_file_order": prods, "pointer_order": ptrs, "len": bytes.len(), "out": d.out})); }
            }
            tr.finish();
            res.finish();
        }
        m => { eprintln!("drd: unknown mode {m}"); std::process::exit(2) }
    }
}
