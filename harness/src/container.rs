//! C05 (container fidelity) and C06 (container totality) against Container.tla.
use crate::common::*;
use crate::drd::bytes_of;
use crate::icd::*;
use bzip2::read::BzEncoder;
use bzip2::Compression;
use nexrad_data::aws::realtime::Chunk;
use nexrad_data::volume::{File, Record};
use serde_json::{json, Map, Value};
use std::io::Read;

pub fn bz(data: &[u8]) -> Vec<u8> {
    let mut out = Vec::new();
    BzEncoder::new(data, Compression::fast()).read_to_end(&mut out).expect("bzip2 encode");
    out
}

pub fn prefix(len: usize, neg: bool) -> [u8; 4] { (if neg { -(len as i64) as i32 } else { len as i32 }).to_be_bytes() }

/// wire = [(payload on the wire, negative prefix?)]
pub fn build_file(header: &[u8], wire: &[(Vec<u8>, bool)]) -> Vec<u8> {
    let mut f = header.to_vec();
    for (p, neg) in wire { f.extend_from_slice(&prefix(p.len(), *neg)); f.extend_from_slice(p); }
    f
}

pub fn default_header(l: &Layouts, rng: &mut Rng) -> (Vec<u8>, Fields) {
    let mut h = Fields::new();
    h.insert("tape_filename".into(), b"AR2V0006.".to_vec());
    h.insert("extension_number".into(), format!("{:03}", rng.below(1000)).into_bytes());
    h.insert("date".into(), (1 + rng.below(65535) as u32).to_be_bytes().to_vec());
    h.insert("time".into(), (rng.below(86_400_000) as u32).to_be_bytes().to_vec());
    h.insert("icao_of_radar".into(), rng.pick(&["KDMX", "KTLX", "PHWA", "TJUA"]).as_bytes().to_vec());
    (l.get("volume_header").encode(&h), h)
}

struct FileObs { recs: Vec<(usize, usize, bool)>, concat_ok: bool, rt_ok: bool, wrongway_ok: bool, header_ok: bool, detail: String }

/// plain[k] = Some(plaintext) for records built by compressing it
fn observe(bytes: &[u8], hdr: &Fields, plain: &[Option<Vec<u8>>]) -> Result<FileObs, String> {
    guarded(|| {
        let file = File::new(bytes.to_vec());
        let base = file.data().as_ptr() as usize;
        let records = file.records();
        let recs: Vec<(usize, usize, bool)> = records.iter().map(|r| ((r.data().as_ptr() as usize).wrapping_sub(base).wrapping_sub(24), r.data().len(), r.compressed())).collect();
        let concat: Vec<u8> = records.iter().flat_map(|r| r.data().to_vec()).collect();
        let mut detail = String::new();
        let (mut rt_ok, mut wrongway_ok) = (true, true);
        for (k, r) in records.iter().enumerate() {
            match plain.get(k).cloned().flatten() {
                Some(p) => {
                    match r.decompress() { Ok(d) => if d.data() != p.as_slice() { rt_ok = false; detail = format!("record {k}: decompressed {} bytes, plaintext {}", d.data().len(), p.len()); }, Err(e) => { rt_ok = false; detail = format!("record {k}: {e:?}"); } }
                    if r.messages().is_ok() { wrongway_ok = false; detail = format!("record {k}: messages() of a compressed record succeeded"); }
                }
                None => if !r.compressed() && r.decompress().is_ok() { wrongway_ok = false; detail = format!("record {k}: decompress() of an uncompressed record succeeded"); },
            }
        }
        // the header through the file (a slice) for one half of the inputs, through the public Header::deserialize on a reader that
        // delivers 1..7 bytes per call for the other half
        let header = if dribbled(&bytes[..bytes.len().min(24)]) { nexrad_data::volume::Header::deserialize(&mut Dribble::new(&bytes)) } else { file.header() };
        let header_ok = match header {
            Ok(h) => h.tape_filename().map(|s| s.into_bytes()) == hdr.get("tape_filename").cloned() && h.extension_number().map(|s| s.into_bytes()) == hdr.get("extension_number").cloned()
                && h.icao_of_radar().map(|s| s.into_bytes()) == hdr.get("icao_of_radar").cloned()
                && h.date_time().map(|t| t.timestamp_millis()) == Some((u32::from_be_bytes(hdr["date"].clone().try_into().unwrap_or([0; 4])) as u16 as i64 - 1) * 86_400_000 + u32::from_be_bytes(hdr["time"].clone().try_into().unwrap_or([0; 4])) as i64),
            Err(_) => false,
        };
        FileObs { recs, concat_ok: concat == bytes[24.min(bytes.len())..], rt_ok, wrongway_ok, header_ok, detail }
    })
}

pub fn run(args: &Args) {
    let l = Layouts::load();
    let mut rng = Rng::new(args.seed);
    match args.mode.as_str() {
        "replay" => {
            let vectors = read_ndjson(args.input.as_deref().unwrap_or(""));
            let mut res = Results::create(args.out.as_deref().unwrap_or(""));
            for v in &vectors {
                let hdr = fields_from_json(&v["header"]);
                let hb = bytes_of(&v["header_bytes"]);
                let specs = v["recs"].as_array().cloned().unwrap_or_default();
                let mut wire = Vec::new();
                let mut plain = Vec::new();
                for s in &specs {
                    let p = bytes_of(&s["payload"]);
                    let neg = s["neg"] == json!(true);
                    if s["kind"] == json!("bz") { wire.push((bz(&p), neg)); plain.push(Some(p)); } else { wire.push((p, neg)); plain.push(None); }
                }
                let bytes = build_file(&hb, &wire);
                res.case(hash_value(&v["recs"]), !specs.is_empty());
                let small = json!({"recs": v["recs"], "file_len": bytes.len()});
                match observe(&bytes, &hdr, &plain) {
                    Err(p) => res.mismatch("violation", "C05/panic", p, small),
                    Ok(o) => {
                        if Some(o.recs.len() as u64) != v["n"].as_u64() { res.mismatch("violation", "C05/records/count", format!("expected {} records got {}", v["n"], o.recs.len()), small.clone()); }
                        else {
                            let flags: Vec<bool> = o.recs.iter().map(|r| r.2).collect();
                            if json!(flags) != v["compressed"] { res.mismatch("violation", "C05/compressed_flag", format!("expected {} got {:?}", v["compressed"], flags), small.clone()); }
                            let mut at = 0;
                            for (k, (p, _)) in wire.iter().enumerate() { if o.recs[k].0 != at || o.recs[k].1 != 4 + p.len() { res.mismatch("violation", "C05/records/tiling", format!("record {k}: expected offset {at} length {} got {:?}", 4 + p.len(), o.recs[k]), small.clone()); break; } at += 4 + p.len(); }
                        }
                        if !o.concat_ok { res.mismatch("violation", "C05/records/tiling", "concatenated records differ from the file remainder".into(), small.clone()); }
                        if !o.rt_ok { res.mismatch("violation", "C05/bzip2_roundtrip", o.detail.clone(), small.clone()); }
                        if !o.wrongway_ok { res.mismatch("violation", "C05/error_contract", o.detail.clone(), small.clone()); }
                        if !o.header_ok { res.mismatch("violation", "C05/header", "header accessors differ from the encoded fields".into(), small.clone()); }
                        if specs.len() == 2 { res.sample(json!({"recs": v["recs"], "records_returned": o.recs})); }
                    }
                }
            }
            res.finish();
        }
        "record" => {
            let mut tr = TraceOut::create(args.out.as_deref().unwrap_or(""));
            let mut res = Results::create(args.res.as_deref().unwrap_or(""));
            let files = if args.thorough { 60 } else { 14 };
            for k in 0..files {
                let (hb, hdr) = default_header(&l, &mut rng);
                let nrec = match k % 5 { 0 => 0, 1 => 1, 2 => 60, _ => rng.range(2, 30) } as usize;
                let (mut wire, mut plain, mut sizes, mut bzflags) = (Vec::new(), Vec::new(), Vec::new(), Vec::new());
                for _ in 0..nrec {
                    let cap = if args.thorough && rng.chance(1, 10) { 300 * 1024 } else { 4096 };
                    let n = if cap > 4096 { cap - rng.below(1000) as usize as u64 } else { match rng.below(6) { 0 => 0, 1 => 1, 2 => 2, _ => rng.below(cap) } } as usize;
                    let body = match rng.below(3) { 0 => vec![rng.next() as u8; n], _ => rng.bytes(n) };
                    let neg = rng.chance(1, 2);
                    match rng.below(4) {
                        0 => { let mut raw = body.clone(); if raw.len() >= 2 && rng.chance(1, 3) { raw[0] = b'B'; raw[1] = b'Z'; } wire.push((raw, neg)); plain.push(None); }
                        _ => { wire.push((bz(&body), neg)); plain.push(Some(body)); }
                    }
                    let w = &wire[wire.len() - 1].0;
                    sizes.push(w.len());
                    bzflags.push(w.len() >= 2 && &w[..2] == b"BZ");
                }
                let bytes = build_file(&hb, &wire);
                res.case(fnv(&bytes), nrec > 0);
                match observe(&bytes, &hdr, &plain) {
                    Err(p) => res.mismatch("violation", "C05/panic", p, json!({"sizes": sizes})),
                    Ok(o) => tr.ev(json!({"file": 1, "total": bytes.len(), "sizes": sizes, "bz": bzflags, "recs": o.recs.iter().map(|r| json!([r.0, r.1, r.2 as u8])).collect::<Vec<_>>(),
                                          "rt_ok": o.rt_ok && o.concat_ok, "wrongway_ok": o.wrongway_ok, "header_ok": o.header_ok})),
                }
            }
            // multi-block bzip2 streams (the encoder's block size is 100 kB) and day counts 0 / 65536 in the header
            for (k, day) in [(0u32, 0u32), (1, 65_536), (2, 19_800)] {
                let (_, mut hdr) = default_header(&l, &mut rng);
                hdr.insert("date".into(), day.to_be_bytes().to_vec());
                let hb = l.get("volume_header").encode(&hdr);
                // the last file also carries a payload above 4 MiB (half random, half constant) and one of 9 MB of a single byte
                let mut huge = rng.bytes(2_200_000); huge.extend(std::iter::repeat(0x31u8).take(2_300_001));
                let bodies = if k == 2 { vec![huge, vec![9u8; 9_000_000], rng.bytes(100_001)] } else { vec![rng.bytes(300 * 1024 - k as usize), vec![k as u8; 250_000], rng.bytes(100_001)] };
                let wire: Vec<(Vec<u8>, bool)> = bodies.iter().map(|b| (bz(b), k % 2 == 0)).collect();
                let plain: Vec<Option<Vec<u8>>> = bodies.iter().cloned().map(Some).collect();
                let bytes = build_file(&hb, &wire);
                res.case(fnv(&bytes[..4096.min(bytes.len())]), true);
                match observe(&bytes, &hdr, &plain) {
                    Err(p) => res.mismatch("violation", "C05/panic", p, json!({"multi_block": k})),
                    Ok(o) => tr.ev(json!({"file": 1, "total": bytes.len(), "sizes": wire.iter().map(|w| w.0.len()).collect::<Vec<_>>(), "bz": [true, true, true], "recs": o.recs.iter().map(|r| json!([r.0, r.1, r.2 as u8])).collect::<Vec<_>>(),
                                          "rt_ok": o.rt_ok && o.concat_ok, "wrongway_ok": o.wrongway_ok, "header_ok": o.header_ok})),
                }
            }
            // decompress() must not carry anything over from an earlier call: a multi-block stream cut inside its second block
            // (fails after output was produced), then a small valid record on the same thread
            {
                let big = rng.bytes(250_000);
                let z = bz(&big);
                let mut cut = prefix(z.len() * 3 / 4, false).to_vec(); cut.extend_from_slice(&z[..z.len() * 3 / 4]);
                let first = guarded(|| Record::new(cut.clone()).decompress().map(|r| r.data().len()));
                let small = rng.bytes(5_000);
                let zs = bz(&small);
                let mut rec = prefix(zs.len(), false).to_vec(); rec.extend_from_slice(&zs);
                res.case(fnv(&rec) ^ 0xC0FFEE, true);
                match guarded(|| Record::new(rec.clone()).decompress().map(|r| r.data().to_vec())) {
                    Ok(Ok(d)) => if d != small { res.mismatch("violation", "C05/decompress/depends_on_earlier_call", format!("after a failed decompress ({:?}) a valid record decompressed to {} bytes instead of {}", first.map(|r| r.is_ok()), d.len(), small.len()), json!({"sizes": [cut.len(), rec.len()]})); },
                    Ok(Err(e)) => res.mismatch("violation", "C05/decompress/depends_on_earlier_call", format!("a valid record failed to decompress after a failed one: {e:?}"), json!({"sizes": [cut.len(), rec.len()]})),
                    Err(p) => res.mismatch("violation", "C05/panic", p, json!({"after_failed_decompress": true})),
                }
            }
            res.sample(json!({"files": files, "records_per_file": "0, 1, 60, seeded 2..30", "payload_sizes": "0 B .. 300 KiB (thorough)"}));
            tr.finish();
            res.finish();
        }
        m => { eprintln!("container: unknown mode {m}"); std::process::exit(2) }
    }
}

// ---------------------------------------------------------------------------------------------
// C06: every container entry point on arbitrary bytes

fn outcome<T, E>(r: Result<Result<T, E>, String>) -> &'static str { match r { Ok(Ok(_)) => "ok", Ok(Err(_)) => "err", Err(_) => "panic" } }
fn total<T>(r: Result<T, String>) -> &'static str { match r { Ok(_) => "ok", Err(_) => "panic" } }

pub fn entry_points(data: &[u8]) -> Map<String, Value> {
    let mut o = Map::new();
    let d = data.to_vec();
    o.insert("file_records".into(), json!(total(guarded(|| File::new(d.clone()).records().len()))));
    o.insert("file_header".into(), json!(outcome(guarded(|| File::new(d.clone()).header()))));
    o.insert("file_scan".into(), json!(outcome(guarded(|| File::new(d.clone()).scan()))));
    o.insert("file_debug".into(), json!(total(guarded(|| format!("{:?}", File::new(d.clone())).len()))));
    o.insert("record_compressed".into(), json!(total(guarded(|| Record::new(d.clone()).compressed()))));
    o.insert("record_decompress".into(), json!(outcome(guarded(|| Record::new(d.clone()).decompress().map(|r| r.data().len())))));
    o.insert("record_messages".into(), json!(outcome(guarded(|| Record::new(d.clone()).messages().map(|m| m.len())))));
    o.insert("record_debug".into(), json!(total(guarded(|| format!("{:?}", Record::new(d.clone())).len()))));
    o.insert("record_slice_debug".into(), json!(total(guarded(|| format!("{:?}", Record::from_slice(&d)).len()))));
    o.insert("chunk_new".into(), json!(outcome(guarded(|| Chunk::new(d.clone()).map(|c| c.data().len())))));
    o.insert("chunk_debug".into(), json!(total(guarded(|| Chunk::new(d.clone()).map(|c| format!("{:?}", c).len()).unwrap_or(0)))));
    o.insert("records_then_use".into(), json!(total(guarded(|| { let f = File::new(d.clone()); f.records().iter().map(|r| (r.compressed(), r.decompress().is_ok(), r.messages().is_ok(), format!("{:?}", r).len())).count() }))));
    o
}

pub fn run_total(args: &Args) {
    if args.mode != "record" { eprintln!("totalc: only record"); std::process::exit(2); }
    let l = Layouts::load();
    let mut rng = Rng::new(args.seed);
    let mut tr = TraceOut::create(args.out.as_deref().unwrap_or(""));
    let mut res = Results::create(args.res.as_deref().unwrap_or(""));
    let mut emit = |class: &str, data: &[u8], tr: &mut TraceOut, res: &mut Results| {
        res.case(fnv(data), !data.is_empty());
        progress(|| format!("container entry points on class {} ({} bytes): {:?}", class, data.len(), &data[..data.len().min(96)]));
        let t0 = std::time::Instant::now();
        let o = entry_points(data);
        let ms = t0.elapsed().as_millis() as u64;
        let mut e = json!({"arb": class, "len": data.len(), "outcomes": Value::Object(o), "ms": ms});
        if data.len() <= 64 { e["data"] = json!(data); }
        if ms > 20_000 { res.mismatch("violation", "C06/slow", format!("{} bytes took {} ms", data.len(), ms), json!({"class": class, "len": data.len()})); }
        tr.ev(e);
    };
    // (1) every string over the adversarial alphabet up to a length, exhaustively
    let alphabet = [0u8, 255, b'A', b'R', b'2', b'B', b'Z', 128];
    let max_exh = if args.thorough { 6 } else { 4 };
    for n in 0..=max_exh {
        let mut idx = vec![0usize; n];
        loop {
            let s: Vec<u8> = idx.iter().map(|i| alphabet[*i]).collect();
            emit("alphabet", &s, &mut tr, &mut res);
            let mut k = 0;
            while k < n { idx[k] += 1; if idx[k] < alphabet.len() { break; } idx[k] = 0; k += 1; }
            if k == n { break; }
        }
    }
    // (2) every length 0..64 (several fills), stratified random up to 64
    for n in 0..=64usize { for fill in [0u8, 255, b'B'] { emit("length", &vec![fill; n], &mut tr, &mut res); } let s = rng.bytes(n); emit("random", &s, &mut tr, &mut res); }
    for _ in 0..(if args.thorough { 50_000 } else { 6_000 }) { let n = rng.below(65) as usize; let s: Vec<u8> = (0..n).map(|_| if rng.chance(2, 3) { *rng.pick(&alphabet) } else { rng.next() as u8 }).collect(); emit("stratified", &s, &mut tr, &mut res); }
    // (3) every truncation point of a valid volume and of valid chunks; corrupted prefixes / bzip2 streams
    let (hb, _) = default_header(&l, &mut rng);
    let msgs: Vec<u8> = { let mut f = crate::frames::msg_header_bytes(2, 1, 1208); f.extend_from_slice(&vec![0u8; 2404]); f };
    let valid = build_file(&hb, &[(bz(&msgs), true), (bz(&msgs[..100]), false), (vec![1, 2, 3], false)]);
    let step = if args.thorough { 1 } else { 3 };
    let mut c = 0;
    while c <= valid.len() { emit("truncated_volume", &valid[..c], &mut tr, &mut res); c += step; }
    let chunk = { let mut x = prefix(bz(&msgs).len(), true).to_vec(); x.extend_from_slice(&bz(&msgs)); x };
    c = 0;
    while c <= chunk.len() { emit("truncated_chunk", &chunk[..c], &mut tr, &mut res); c += step; }
    for p in [[0x7Fu8, 0xFF, 0xFF, 0xFF], [0x80, 0, 0, 0], [0xFF, 0xFF, 0xFF, 0xFF], [0, 0, 0, 200], [0x80, 0, 0, 1], [0, 1, 0, 0]] {
        for at in [24usize, 24 + 4 + bz(&msgs).len()] { if at + 4 <= valid.len() { let mut v = valid.clone(); v[at..at + 4].copy_from_slice(&p); emit("corrupt_prefix", &v, &mut tr, &mut res); } }
        emit("bare_prefix", &p, &mut tr, &mut res);
        let mut v = hb.clone(); v.extend_from_slice(&p); emit("header_plus_prefix", &v, &mut tr, &mut res);
    }
    // (3b) records / volumes whose payload is a message stream with a type-31 block declaring far more gate bytes than
    //      16 bits hold (gates x word) or than the data present: the decode layer below must turn it into an error
    for (gates, word) in [(40_000u16, 16u8), (65_535, 16), (32_768, 16), (2_115, 255), (65_535, 255), (65_535, 8), (4_096, 16), (1, 0)] {
        let mut m = crate::frames::msg_header_bytes(31, 1, 0xFFFF);
        let mut drd = vec![0u8; 32];
        drd[30..32].copy_from_slice(&1u16.to_be_bytes());
        drd.extend_from_slice(&36u32.to_be_bytes());
        let mut gen = vec![0u8; 28];
        gen[0] = b'D'; gen[1..4].copy_from_slice(b"REF"); gen[8..10].copy_from_slice(&gates.to_be_bytes()); gen[19] = word;
        drd.extend_from_slice(&gen);
        drd.extend_from_slice(&vec![7u8; 64]);
        m.extend_from_slice(&drd);
        let mut raw_rec = prefix(m.len(), false).to_vec(); raw_rec.extend_from_slice(&m);
        emit("type31_gate_bomb_record", &raw_rec, &mut tr, &mut res);
        emit("type31_gate_bomb_stream", &m, &mut tr, &mut res);
        emit("type31_gate_bomb_volume", &build_file(&hb, &[(bz(&m), true)]), &mut tr, &mut res);
        emit("type31_gate_bomb_volume_raw", &build_file(&hb, &[(m.clone(), false)]), &mut tr, &mut res);
    }
    // (3d) a well-formed volume of four elevations with five radials each (spacing codes cycle 0, 1, 2, 255; the first radial
    //      of the fourth elevation has code 0): the scan path beyond a single message, whole and at every 97th truncation point
    {
        let l = Layouts::load();
        let mut frames = Vec::new();
        let mut id = 1u64;
        for el in 1..=4u8 { for j in 0..5 { frames.extend_from_slice(&crate::scan::frame(&l, &mut rng, &crate::scan::Sym { radial: true, el, vol: if el == 1 && j == 0 { 212 } else { 0 }, id }, id as usize)); id += 1; } }
        let vol = build_file(&hb, &[(bz(&frames), true)]);
        emit("wellformed_four_elevations", &vol, &mut tr, &mut res);
        emit("wellformed_four_elevations_raw", &build_file(&hb, &[(frames.clone(), false)]), &mut tr, &mut res);
        let mut c = 24;
        while c < vol.len() { emit("wellformed_four_elevations_cut", &vol[..c], &mut tr, &mut res); c += 97; }
    }
    // (3c) a complete, otherwise well-formed radial (volume / elevation / radial blocks present, so that the scan gets as far as
    //      converting moments) whose moment block declares a word size other than 8 or 16
    for word in [0u8, 1, 4, 7, 9, 12, 15, 17, 24, 32, 64, 255] {
        let l = Layouts::load();
        let mut blocks: Vec<crate::drd::Block> = ["VOL", "ELV", "RAD"].iter().map(|p| crate::drd::random_block(&l, &mut rng, p, 0, 8, 0)).collect();
        let mut refl = crate::drd::random_block(&l, &mut rng, "REF", 0, 8, 0);
        refl.rec.insert("number_of_data_moment_gates".into(), 5u16.to_be_bytes().to_vec());
        refl.rec.insert("data_word_size".into(), vec![word]);
        refl.gates = rng.bytes(5 * (word as usize / 8));
        blocks.push(refl);
        let mut hdr = l.get("drd_header").random(&mut rng);
        hdr.insert("date".into(), 19_800u16.to_be_bytes().to_vec());
        hdr.insert("time".into(), 1000u32.to_be_bytes().to_vec());
        let mut m = crate::frames::msg_header_bytes(31, 1, 0xFFFF);
        m.extend_from_slice(&crate::drd::build_message(&l, &hdr, &blocks, &[0, 1, 2, 3]));
        let mut raw_rec = prefix(m.len(), false).to_vec(); raw_rec.extend_from_slice(&m);
        emit("type31_odd_word_size_record", &raw_rec, &mut tr, &mut res);
        emit("type31_odd_word_size_volume", &build_file(&hb, &[(bz(&m), true)]), &mut tr, &mut res);
        emit("type31_odd_word_size_volume_raw", &build_file(&hb, &[(m.clone(), false)]), &mut tr, &mut res);
    }
    for _ in 0..(if args.thorough { 400 } else { 60 }) { let mut v = valid.clone(); let n = 1 + rng.below(4); for _ in 0..n { let at = rng.below(v.len() as u64) as usize; v[at] ^= 1 << rng.below(8); } emit("corrupt_bzip2", &v, &mut tr, &mut res); let mut ch = chunk.clone(); let at = 6 + rng.below(ch.len() as u64 - 6) as usize; ch[at] = rng.next() as u8; emit("corrupt_chunk", &ch, &mut tr, &mut res); }
    res.sample(json!({"classes": ["alphabet (exhaustive)", "length", "random", "stratified", "truncated_volume", "truncated_chunk", "corrupt_prefix", "corrupt_bzip2"], "entry_points": entry_points(&[]).keys().collect::<Vec<_>>()}));
    tr.finish();
    res.finish();
}
