//! C15: the rotated search (through the guarded wrapper) and get_latest_volume against Search.tla.
use crate::common::*;
use nexrad_data::aws::realtime::verif_rotated_search;
use serde_json::json;
use std::cell::RefCell;

fn val(n: u64, p: u64, k: u64, i: u64) -> Option<u64> {
    let d = (p + n - (i % n)) % n;
    if d < k { Some(k - d) } else { None }
}

/// Runs the real search on the bucket shape (n, p, k); returns (result index or -1, probe list).
pub fn run_shape(rt: &tokio::runtime::Runtime, n: u64, p: u64, k: u64) -> Result<(i64, Vec<u64>), String> {
    let probes: RefCell<Vec<u64>> = RefCell::new(Vec::new());
    let r = guarded(|| {
        rt.block_on(verif_rotated_search(n as usize, u64::MAX, |i| {
            probes.borrow_mut().push(i as u64);
            let v = if (i as u64) < n { val(n, p, k, i as u64) } else { None };
            std::future::ready(Ok(v))
        }))
    })?;
    match r {
        Ok(x) => Ok((x.map(|i| i as i64).unwrap_or(-1), probes.into_inner())),
        Err(e) => Err(format!("search returned error {e:?}")),
    }
}

fn log2ceil(x: u64) -> u64 { if x <= 1 { 0 } else { 1 + log2ceil((x + 1) / 2) } }
pub fn call_limit(n: u64) -> u64 { n + 8 * log2ceil(n + 1) + 16 }   // "a logarithmic term": generous constants, the statement names none

pub fn run(args: &Args) {
    let rt = tokio::runtime::Builder::new_current_thread().build().expect("runtime");
    match args.mode.as_str() {
        "replay" => {
            let vectors = read_ndjson(args.input.as_deref().unwrap_or(""));
            let mut res = Results::create(args.out.as_deref().unwrap_or(""));
            for v in &vectors {
                let (n, p, k) = (v["n"].as_u64().unwrap_or(1), v["p"].as_u64().unwrap_or(0), v["k"].as_u64().unwrap_or(0));
                res.case(hash_value(&json!([n, p, k])), k >= 1 && k < n);
                match run_shape(&rt, n, p, k) {
                    Err(e) => res.mismatch("violation", "C15/search/panic_or_error", e, v.clone()),
                    Ok((idx, probes)) => {
                        if Some(idx) != v["idx"].as_i64() {
                            res.mismatch("violation", "C15/search/wrong_result", format!("shape n={n} p={p} k={k}: expected {} got {idx}", v["idx"]), v.clone());
                        }
                        if probes.len() as u64 > call_limit(n) {
                            res.mismatch("violation", "C15/search/call_bound", format!("{} probes > limit {}", probes.len(), call_limit(n)), v.clone());
                        }
                        if u64s(&v["probes"]) != probes {
                            res.mismatch("drift", "C15/search/probe_sequence", format!("spec probes {} code probes {:?}", v["probes"], probes), v.clone());
                        }
                        if n == 7 && k == 3 { res.sample(json!({"vector": v, "code_probes": probes, "code_result": idx})); }
                    }
                }
            }
            res.finish();
        }
        "record" => {
            // every bucket shape at the production size N = 999 (or --n), through the in-memory wrapper
            let n: u64 = args.flag("--n").and_then(|s| s.parse().ok()).unwrap_or(999);
            let mut tr = TraceOut::create(args.out.as_deref().unwrap_or(""));
            let mut res = Results::create(args.res.as_deref().unwrap_or(""));
            for p in 0..n {
                for k in 0..=n {
                    res.case(p * (n + 1) + k, k >= 1 && k < n);
                    match run_shape(&rt, n, p, k) {
                        Err(e) => res.mismatch("violation", "C15/search/panic_or_error", e, json!({"n": n, "p": p, "k": k})),
                        Ok((idx, probes)) => tr.ev(json!({"n": n, "p": p, "k": k, "res": idx, "calls": probes.len(), "counted": probes.len()})),
                    }
                }
            }
            res.sample(json!({"n": n, "shapes": n * (n + 1), "note": "one event per shape: newest index p, populated count k"}));
            tr.finish();
            res.finish();
        }
        m => { eprintln!("search: unknown mode {m}"); std::process::exit(2) }
    }
}
