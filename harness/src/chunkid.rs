//! C16: ChunkIdentifier / archive::Identifier against ChunkId.tla.
use crate::common::*;
use chrono::{TimeZone, Utc};
use nexrad_data::aws::archive::Identifier;
use nexrad_data::aws::realtime::{ChunkIdentifier, ChunkType, NextChunk, VolumeIndex};
use serde_json::{json, Value};

fn tcode(t: Option<ChunkType>) -> i64 {
    match t { Some(ChunkType::Start) => 1, Some(ChunkType::Intermediate) => 2, Some(ChunkType::End) => 3, None => 0 }
}
fn letter(seq: u64) -> &'static str { if seq == 1 { "S" } else if seq == 55 { "E" } else { "I" } }
fn cps(s: &str) -> Vec<u32> { s.chars().map(|c| c as u32).collect() }

fn prefix_for(rng: &mut Rng) -> String {
    let t = Utc.with_ymd_and_hms(2000 + rng.below(60) as i32, 1 + rng.below(12) as u32, 1 + rng.below(28) as u32,
                                 rng.below(24) as u32, rng.below(60) as u32, rng.below(60) as u32).single().expect("date");
    t.format("%Y%m%d-%H%M%S").to_string()
}

fn arbitrary(rng: &mut Rng) -> String {
    let alphabet: Vec<char> = "0123456789--SIE+ _é€😀Kx\t".chars().collect();
    let n = rng.below(28) as usize;
    (0..n).map(|_| *rng.pick(&alphabet)).collect()
}

/// a valid name with 0..2 random edits (substitution, deletion, insertion of an interesting character)
fn near(rng: &mut Rng, valid: &str) -> String {
    let mut v: Vec<char> = valid.chars().collect();
    let edits = rng.below(3);
    let alphabet: Vec<char> = "09-SIE+ é€😀_".chars().collect();
    for _ in 0..edits {
        if v.is_empty() { break; }
        let at = rng.below(v.len() as u64) as usize;
        match rng.below(3) { 0 => v[at] = *rng.pick(&alphabet), 1 => { v.remove(at); } _ => v.insert(at, *rng.pick(&alphabet)) }
    }
    v.into_iter().collect()
}

fn str_event(name: &str) -> Value {
    let id = ChunkIdentifier::new("KDMX".into(), VolumeIndex::new(1), name.to_string(), None);
    let r = guarded(|| (id.sequence(), id.chunk_type()));
    match r {
        Ok((s, t)) => json!({"ev": "str", "cps": cps(name), "seq": match s { None => -1, Some(v) if v <= 999_999_999 => v as i64, Some(_) => -2 }, "type": tcode(t), "panic": false}),
        Err(_) => json!({"ev": "str", "cps": cps(name), "seq": -1, "type": 0, "panic": true}),
    }
}

fn arch_event(name: &str) -> Value {
    let id = Identifier::new(name.to_string());
    let r = guarded(|| (id.site().map(|s| s.to_string()), id.date_time()));
    match r {
        Ok((site, dt)) => {
            let site: Vec<i64> = match site { Some(s) => s.chars().map(|c| c as i64).collect(), None => vec![-1] };
            let dt = match dt {
                Some(t) => { let secs = t.timestamp(); vec![secs.div_euclid(86400), secs.rem_euclid(86400)] }
                None => vec![-1, -1],
            };
            json!({"ev": "arch", "cps": cps(name), "site": site, "dt": dt, "panic": false})
        }
        Err(_) => json!({"ev": "arch", "cps": cps(name), "site": [-1], "dt": [-1, -1], "panic": true}),
    }
}

pub fn run(args: &Args) {
    if args.mode != "record" { eprintln!("chunkid: only record"); std::process::exit(2); }
    let mut rng = Rng::new(args.seed);
    let mut tr = TraceOut::create(args.out.as_deref().unwrap_or(""));
    let mut res = Results::create(args.res.as_deref().unwrap_or(""));
    // 1. the full successor cycle from (1, 1)
    let prefix = "20240804-101007";
    let (mut vol, mut seq) = (1u64, 1u64);
    for step in 1..=(999u64 * 55) {
        let id = ChunkIdentifier::new("KDMX".into(), VolumeIndex::new(vol as usize), format!("{}-{:03}-{}", prefix, seq, letter(seq)), None);
        res.case(vol * 100 + seq, true);
        let nx = guarded(|| id.next_chunk());
        let (nvol, nseq, keep, ntype) = match nx {
            Ok(Some(NextChunk::Sequence(n))) => {
                let keep = n.site() == "KDMX" && n.name().starts_with(prefix) && n.name().len() == prefix.len() + 6 && n.date_time().is_none();
                (n.volume().as_number() as i64, n.sequence().map(|s| s as i64).unwrap_or(-1), keep, tcode(n.chunk_type()))
            }
            Ok(Some(NextChunk::Volume(v))) => (v.as_number() as i64, 1, true, 1),
            Ok(None) => (-1, -1, false, 0),
            Err(p) => { res.mismatch("violation", "C16/next_chunk/panic", p, json!({"vol": vol, "seq": seq})); (-1, -1, false, 0) }
        };
        tr.ev(json!({"ev": "succ", "step": step, "vol": vol, "seq": seq, "nvol": nvol, "nseq": nseq, "keep": keep, "ntype": ntype}));
        if nvol < 0 || nseq < 0 { break; }
        vol = nvol as u64; seq = nseq as u64;
        if !(0..=1000).contains(&vol) { break; }
    }
    // 2. every (volume, sequence) name parses back; with_sequence keeps site/volume/prefix
    for vol in 1..=999u64 {
        let sites = ["KDMX", "KTLX", "PHWA", "TJUA"];
        let site = sites[(vol % 4) as usize];
        let pre = prefix_for(&mut rng);
        for seq in 1..=55u64 {
            let name = format!("{}-{:03}-{}", pre, seq, letter(seq));
            let id = ChunkIdentifier::new(site.into(), VolumeIndex::new(vol as usize), name, None);
            let oseq = 1 + rng.below(55);
            res.case(1_000_000 + vol * 100 + seq, true);
            let r = guarded(|| {
                let w = id.with_sequence(oseq as usize);
                (id.sequence(), id.chunk_type(), id.name_prefix() == pre, w.sequence(), w.chunk_type(),
                 w.site() == site && w.volume().as_number() as u64 == vol && w.name_prefix() == pre && w.date_time().is_none())
            });
            match r {
                Ok((ps, pt, pok, ws, wt, wkeep)) => tr.ev(json!({"ev": "name", "vol": vol, "seq": seq, "pseq": ps.map(|x| x as i64).unwrap_or(-1), "ptype": tcode(pt), "prefix_ok": pok,
                    "oseq": oseq, "wseq": ws.map(|x| x as i64).unwrap_or(-1), "wtype": tcode(wt), "wkeep": wkeep})),
                Err(p) => res.mismatch("violation", "C16/name/panic", p, json!({"vol": vol, "seq": seq})),
            }
        }
    }
    // 3. chunk parsers on arbitrary / nearly valid text
    let n_str = if args.thorough { 50_000 } else { 8_000 };
    for k in 0..n_str {
        let valid = format!("{}-{:03}-{}", prefix_for(&mut rng), 1 + rng.below(55), "I");
        let s = if k % 2 == 0 { arbitrary(&mut rng) } else { near(&mut rng, &valid) };
        res.case(fnv(s.as_bytes()), !s.is_empty());
        tr.ev(str_event(&s));
    }
    // 4. archive names: valid (incl. leap days, 23:59:59), nearly valid, arbitrary
    let n_arch = if args.thorough { 20_000 } else { 2_000 };
    let suffixes = ["_V06", "_V06.gz", "", "_V03_MDM", "_é"];
    for k in 0..n_arch {
        let y = 1991 + rng.below(120) as i32;
        let (mo, d) = match rng.below(6) { 0 => (2, 29), 1 => (12, 31), 2 => (2, 28), _ => (1 + rng.below(12) as u32, 1 + rng.below(31) as u32) };
        let (h, mi, s) = if rng.chance(1, 6) { (23, 59, 59) } else { (rng.below(24) as u32, rng.below(60) as u32, rng.below(60) as u32) };
        let valid = format!("{}{:04}{:02}{:02}_{:02}{:02}{:02}{}", ["KDMX", "KTLX", "PHWA", "TJUA"][k % 4], y, mo, d, h, mi, s, rng.pick(&suffixes));
        let name = match k % 3 { 0 => valid, 1 => near(&mut rng, &valid), _ => arbitrary(&mut rng) };
        res.case(fnv(name.as_bytes()), !name.is_empty());
        tr.ev(arch_event(&name));
    }
    for name in ["", "K", "KDM", "KDMX", "KDMX2024", "ééééééééééééééééééé", "KDMX20240229_235959", "KDMX20230229_000000", "KDMX20240101_240000", "€DMX20240101_000000_V06", "KDM€20240101_000000_V06"] {
        res.case(fnv(name.as_bytes()), true);
        tr.ev(arch_event(name));
        tr.ev(str_event(name));
    }
    res.sample(json!({"walk": "54,945 next_chunk() steps from (1,1)", "names": "999 x 55 parsed back", "example_events": [str_event("20240804-101007-055-E"), arch_event("KDMX20240229_235959_V06")]}));
    tr.finish();
    res.finish();
}
