//! C19: get_elevation_from_chunk / estimate_next_chunk_time / ChunkTimingStats against Estimate.tla.
use crate::common::*;
use chrono::{DateTime, Duration, TimeZone, Utc};
use nexrad_data::aws::realtime::{estimate_next_chunk_time, get_elevation_from_chunk, ChunkCharacteristics, ChunkIdentifier, ChunkTimingStats, ChunkType, VolumeIndex};
use nexrad_decode::messages::volume_coverage_pattern::{decode_volume_coverage_pattern, ChannelConfiguration, Message as Vcp, WaveformType};
use serde_json::{json, Value};

const NO_ESTIMATE: i64 = -999_999_999;

/// VCP message with the given cuts (hr, waveform code, channel code), built as ICD bytes and decoded.
pub fn vcp_of(cuts: &[(bool, u8, u8)]) -> Vcp {
    let mut b = vec![0u8; 22];
    b[2..4].copy_from_slice(&2u16.to_be_bytes());
    b[4..6].copy_from_slice(&212u16.to_be_bytes());
    b[6..8].copy_from_slice(&(cuts.len() as u16).to_be_bytes());
    for (k, (hr, wf, ch)) in cuts.iter().enumerate() {
        let mut c = vec![0u8; 46];
        c[0..2].copy_from_slice(&(((k as u16) + 1) << 7).to_be_bytes());
        c[2] = *ch;
        c[3] = *wf;
        c[4] = if *hr { 1 } else { 0 } | 0b1110;
        b.extend_from_slice(&c);
    }
    decode_volume_coverage_pattern(&mut b.as_slice()).expect("vcp bytes")
}

fn cuts_of(v: &Value) -> Vec<(bool, u8, u8)> {
    v.as_array().map(|a| a.iter().map(|c| (c["hr"].as_bool().unwrap_or(false), c["wf"].as_u64().unwrap_or(0) as u8, c["ch"].as_u64().unwrap_or(0) as u8)).collect()).unwrap_or_default()
}
fn cuts_json(c: &[(bool, u8, u8)]) -> Value { Value::Array(c.iter().map(|(hr, wf, ch)| json!({"hr": hr, "wf": wf, "ch": ch})).collect()) }

fn base() -> DateTime<Utc> { Utc.with_ymd_and_hms(2024, 5, 1, 12, 0, 0).single().expect("base") }

fn prev_id(seq: u64) -> ChunkIdentifier {
    let t = if seq == 1 { "S" } else if seq == 55 { "E" } else { "I" };
    ChunkIdentifier::new("KDMX".into(), VolumeIndex::new(7), format!("20240501-120000-{:03}-{}", seq, t), Some(base()))
}

fn map_cut(seq: u64, vcp: &Vcp) -> Result<i64, String> {
    guarded(|| match get_elevation_from_chunk(seq as usize, &vcp.elevations) {
        None => 0,
        Some(e) => vcp.elevations.iter().position(|x| std::ptr::eq(x, e)).map(|p| p as i64 + 1).unwrap_or(-1),
    })
}

fn estimate(seq: u64, vcp: &Vcp, stats: Option<&ChunkTimingStats>) -> Result<i64, String> {
    guarded(|| match estimate_next_chunk_time(&prev_id(seq), vcp, stats) {
        None => NO_ESTIMATE,
        Some(t) => t.signed_duration_since(base()).num_milliseconds(),
    })
}

fn wf_enum(c: u8) -> WaveformType { match c { 1 => WaveformType::CS, 2 => WaveformType::CDW, 3 => WaveformType::CDWO, 4 => WaveformType::B, 5 => WaveformType::SPP, _ => WaveformType::Unknown } }
fn wf_code(w: WaveformType) -> u8 { match w { WaveformType::CS => 1, WaveformType::CDW => 2, WaveformType::CDWO => 3, WaveformType::B => 4, WaveformType::SPP => 5, WaveformType::Unknown => 0 } }
fn ch_enum(c: u8) -> ChannelConfiguration { match c { 0 => ChannelConfiguration::ConstantPhase, 1 => ChannelConfiguration::RandomPhase, 2 => ChannelConfiguration::SZ2Phase, _ => ChannelConfiguration::UnknownPhase } }
fn ch_code(c: ChannelConfiguration) -> u8 { match c { ChannelConfiguration::ConstantPhase => 0, ChannelConfiguration::RandomPhase => 1, ChannelConfiguration::SZ2Phase => 2, ChannelConfiguration::UnknownPhase => 9 } }
fn ty_enum(t: &str) -> ChunkType { match t { "S" => ChunkType::Start, "E" => ChunkType::End, _ => ChunkType::Intermediate } }
fn ty_code(t: ChunkType) -> &'static str { match t { ChunkType::Start => "S", ChunkType::End => "E", ChunkType::Intermediate => "I" } }

pub fn run(args: &Args) {
    match args.mode.as_str() {
        "replay" => {
            let vectors = read_ndjson(args.input.as_deref().unwrap_or(""));
            let mut res = Results::create(args.out.as_deref().unwrap_or(""));
            let empty = ChunkTimingStats::new();
            for v in &vectors {
                let cuts = cuts_of(&v["cuts"]);
                let seq = v["seq"].as_u64().unwrap_or(0);
                let vcp = vcp_of(&cuts);
                res.case(hash_value(v), !cuts.is_empty() && seq > 1);
                match map_cut(seq, &vcp) {
                    Err(p) => res.mismatch("violation", "C19/mapping/panic", p, v.clone()),
                    // the statement quantifies over sequences "from 1 upward": what sequence 0 maps to is left open
                    Ok(c) => if Some(c) != v["cut"].as_i64() { res.mismatch(if seq == 0 { "drift" } else { "violation" }, if seq == 0 { "C19/mapping/sequence_zero" } else { "C19/mapping/cut" }, format!("expected cut {} got {}", v["cut"], c), v.clone()) },
                }
                for stats in [None, Some(&empty)] {
                    match estimate(seq, &vcp, stats) {
                        Err(p) => res.mismatch("violation", "C19/estimate/panic", p, v.clone()),
                        Ok(e) => if Some(e) != v["est"].as_i64() {
                            let sig = if e == NO_ESTIMATE || v["est"].as_i64() == Some(NO_ESTIMATE) { "C19/estimate/none_contract" } else { "C19/estimate/default" };
                            res.mismatch("violation", sig, format!("expected offset {} ms got {}", v["est"], e), v.clone())
                        },
                    }
                }
                if cuts.len() == 2 && seq == 5 { res.sample(v.clone()); }
            }
            res.finish();
        }
        "record" => {
            let mut rng = Rng::new(args.seed);
            let mut tr = TraceOut::create(args.out.as_deref().unwrap_or(""));
            let mut res = Results::create(args.res.as_deref().unwrap_or(""));
            let sessions = if args.thorough { 400 } else { 60 };
            for session in 0..sessions {
                // every fifth session all recorded durations are 0 s: a mean of zero is history like any other
                let zero_session = session % 5 == 4;
                let mut stats = ChunkTimingStats::new();
                tr.ev(json!({"op": "reset"}));
                let nkeys = 1 + rng.below(4);
                let keys: Vec<(&str, u8, u8)> = (0..nkeys).map(|_| (*rng.pick(&["I", "I", "E"]), 1 + rng.below(5) as u8, rng.below(3) as u8)).collect();
                let ops = rng.range(5, if args.thorough { 120 } else { 60 });
                for _ in 0..ops {
                    match rng.below(10) {
                        0..=5 => {
                            let (t, wf, ch) = *rng.pick(&keys);
                            let dur = if zero_session { 0 } else { (match rng.below(4) { 0 => 0, 1 => 60_000, _ => rng.below(60_001) }) as i64 };
                            let att = 1 + rng.below(5) as usize;
                            stats.add_timing(ChunkCharacteristics { chunk_type: ty_enum(t), waveform_type: wf_enum(wf), channel_configuration: ch_enum(ch) }, Duration::milliseconds(dur), att);
                            tr.ev(json!({"op": "add", "t": t, "wf": wf, "ch": ch, "dur": dur, "att": att}));
                        }
                        6 | 7 => {
                            let prev = match rng.below(6) { 0 => 0, 1 => 55, 2 => 54, 3 => if rng.chance(1, 2) { 56 } else { 57 + rng.below(144) }, _ => 1 + rng.below(54) };
                            let cap = if rng.chance(1, 5) { 33 } else { 9 };
                            // a previous sequence just outside 1..=55 meets a pattern long enough for the next chunk to have a cut
                            let n = if prev == 56 || prev == 0 { 32 } else { rng.below(cap) as usize };
                            let cuts: Vec<(bool, u8, u8)> = (0..n).map(|_| { let k = if rng.chance(2, 3) { *rng.pick(&keys) } else { ("I", 1 + rng.below(5) as u8, rng.below(3) as u8) }; (rng.chance(1, 2), k.1, k.2) }).collect();
                            let vcp = vcp_of(&cuts);
                            res.case(fnv(format!("{:?}{}", cuts, prev).as_bytes()), n > 0);
                            match estimate(prev, &vcp, Some(&stats)) {
                                Ok(e) => tr.ev(json!({"op": "est", "prev": prev, "cuts": cuts_json(&cuts), "res": e})),
                                Err(p) => res.mismatch("violation", "C19/estimate/panic", p, json!({"prev": prev, "cuts": cuts_json(&cuts)})),
                            }
                        }
                        8 => {
                            let n = rng.below(33) as usize;
                            let cuts: Vec<(bool, u8, u8)> = (0..n).map(|_| (rng.chance(1, 2), 1 + rng.below(5) as u8, rng.below(3) as u8)).collect();
                            let vcp = vcp_of(&cuts);
                            let seq = 1 + rng.below(200);
                            res.case(fnv(format!("m{:?}{}", cuts, seq).as_bytes()), n > 0);
                            match map_cut(seq, &vcp) {
                                Ok(c) => tr.ev(json!({"op": "map", "seq": seq, "cuts": cuts_json(&cuts), "cut": c})),
                                Err(p) => res.mismatch("violation", "C19/mapping/panic", p, json!({"seq": seq})),
                            }
                        }
                        _ => {
                            let rows: Vec<Value> = stats.get_statistics().iter().map(|(k, avg, att)| json!({
                                "t": ty_code(k.chunk_type), "wf": wf_code(k.waveform_type), "ch": ch_code(k.channel_configuration),
                                "avg": avg.map(|d| d.num_milliseconds()).unwrap_or(-1), "att": att.map(|a| (a * 2520.0).round() as i64).unwrap_or(-1)})).collect();
                            tr.ev(json!({"op": "stats", "rows": rows}));
                        }
                    }
                }
            }
            res.sample(json!({"ops": "add_timing / estimate_next_chunk_time / get_elevation_from_chunk / get_statistics", "sessions": sessions}));
            tr.finish();
            res.finish();
        }
        m => { eprintln!("estimate: unknown mode {m}"); std::process::exit(2) }
    }
}
