//! C11: Volume Coverage Pattern message against Vcp.tla.
use crate::common::*;
use crate::drd::bytes_of;
use crate::icd::*;
use nexrad_decode::messages::volume_coverage_pattern::{decode_volume_coverage_pattern, ElevationDataBlock, Header, Message};
use nexrad_decode::messages::{decode_message_contents, MessageContents, MessageType};
use serde_json::{json, Value};
use std::io::Cursor;

const INEXACT: i64 = -777_777;
fn scaled(v: f64, k: f64) -> i64 { let x = v * k; if x.fract() == 0.0 && x.abs() < 1e15 { x as i64 } else { INEXACT } }

fn offset(l: &Layouts, layout: &str, field: &str) -> usize {
    l.get(layout).fields.iter().find(|f| f.0 == field).map(|f| f.2).unwrap_or_else(|| { eprintln!("no field {field}"); std::process::exit(2) })
}

fn decode_one(bytes: &[u8]) -> Option<Message> { decode_volume_coverage_pattern(&mut &bytes[..]).ok() }

fn header_acc(name: &str, h: &Header) -> i64 {
    match name {
        "vcp_sequencing_number_of_elevations" => h.vcp_sequencing_number_of_elevations() as i64,
        "vcp_sequencing_maximum_sails_cuts" => h.vcp_sequencing_maximum_sails_cuts() as i64,
        "vcp_sequencing_sequence_active" => h.vcp_sequencing_sequence_active() as i64,
        "vcp_sequencing_truncated_vcp" => h.vcp_sequencing_truncated_vcp() as i64,
        "vcp_supplemental_data_sails_vcp" => h.vcp_supplemental_data_sails_vcp() as i64,
        "vcp_supplemental_data_number_sails_cuts" => h.vcp_supplemental_data_number_sails_cuts() as i64,
        "vcp_supplemental_data_mrle_vcp" => h.vcp_supplemental_data_mrle_vcp() as i64,
        "vcp_supplemental_data_number_mrle_cuts" => h.vcp_supplemental_data_number_mrle_cuts() as i64,
        "vcp_supplemental_data_mpda_vcp" => h.vcp_supplemental_data_mpda_vcp() as i64,
        "vcp_supplemental_data_base_tilt_vcp" => h.vcp_supplemental_data_base_tilt_vcp() as i64,
        "vcp_supplemental_data_base_tilts" => h.vcp_supplemental_data_base_tilts() as i64,
        "doppler_velocity_resolution" => { let (a, u) = (h.doppler_velocity_resolution_meters_per_second().map(|v| scaled(v, 2.0)).unwrap_or(-1), h.doppler_velocity_resolution().map(|v| scaled(v.get::<uom::si::velocity::meter_per_second>(), 2.0)).unwrap_or(-1)); if a == u { a } else { -996 } }
        _ => -999,
    }
}

/// The plain and the unit-typed accessor of one field must agree (-996 otherwise: no specification value is negative below -1).
/// (uom keeps angles in radians: the unit-typed value comes back through a multiplication and a division by pi/180, so
/// agreement is up to that rounding, not bit for bit)
fn both(plain: f64, unit_typed: f64, den: f64) -> i64 { if (plain - unit_typed).abs() <= 1e-9 * (1.0 + plain.abs()) { scaled(plain, den) } else { -996 } }

fn cut_acc(name: &str, c: &ElevationDataBlock) -> i64 {
    match name {
        "super_resolution_control_half_degree_azimuth" => c.super_resolution_control_half_degree_azimuth() as i64,
        "super_resolution_control_quarter_km_reflectivity" => c.super_resolution_control_quarter_km_reflectivity() as i64,
        "super_resolution_control_doppler_to_300km" => c.super_resolution_control_doppler_to_300km() as i64,
        "super_resolution_control_dual_polarization_to_300km" => c.super_resolution_control_dual_polarization_to_300km() as i64,
        "supplemental_data_sails_cut" => c.supplemental_data_sails_cut() as i64,
        "supplemental_data_sails_sequence_number" => c.supplemental_data_sails_sequence_number() as i64,
        "supplemental_data_mrle_cut" => c.supplemental_data_mrle_cut() as i64,
        "supplemental_data_mrle_sequence_number" => c.supplemental_data_mrle_sequence_number() as i64,
        "supplemental_data_mpda_cut" => c.supplemental_data_mpda_cut() as i64,
        "supplemental_data_base_tilt_cut" => c.supplemental_data_base_tilt_cut() as i64,
        "elevation_angle" => both(c.elevation_angle_degrees(), c.elevation_angle().get::<uom::si::angle::degree>(), 4096.0),
        "sector_1_edge_angle" => both(c.sector_1_edge_angle_degrees(), c.sector_1_edge_angle().get::<uom::si::angle::degree>(), 4096.0),
        "sector_2_edge_angle" => both(c.sector_2_edge_angle_degrees(), c.sector_2_edge_angle().get::<uom::si::angle::degree>(), 4096.0),
        "sector_3_edge_angle" => both(c.sector_3_edge_angle_degrees(), c.sector_3_edge_angle().get::<uom::si::angle::degree>(), 4096.0),
        "ebc_angle" => both(c.ebc_angle_degrees(), c.ebc_angle().get::<uom::si::angle::degree>(), 4096.0),
        "azimuth_rate" => both(c.azimuth_rate_degrees_per_second(), c.azimuth_rate().get::<uom::si::angular_velocity::degree_per_second>(), 4096.0),
        "reflectivity_threshold" => scaled(c.reflectivity_threshold(), 8.0),
        "velocity_threshold" => scaled(c.velocity_threshold(), 8.0),
        "spectrum_width_threshold" => scaled(c.spectrum_width_threshold(), 8.0),
        "differential_reflectivity_threshold" => scaled(c.differential_reflectivity_threshold(), 8.0),
        "differential_phase_threshold" => scaled(c.differential_phase_threshold(), 8.0),
        "correlation_coefficient_threshold" => scaled(c.correlation_coefficient_threshold(), 8.0),
        _ => -999,
    }
}

/// accessor -> (layout, field it reads, field width in bytes)
const HEADER_ACC: [(&str, &str, usize); 12] = [
    ("vcp_sequencing_number_of_elevations", "vcp_sequencing", 2), ("vcp_sequencing_maximum_sails_cuts", "vcp_sequencing", 2),
    ("vcp_sequencing_sequence_active", "vcp_sequencing", 2), ("vcp_sequencing_truncated_vcp", "vcp_sequencing", 2),
    ("vcp_supplemental_data_sails_vcp", "vcp_supplemental_data", 2), ("vcp_supplemental_data_number_sails_cuts", "vcp_supplemental_data", 2),
    ("vcp_supplemental_data_mrle_vcp", "vcp_supplemental_data", 2), ("vcp_supplemental_data_number_mrle_cuts", "vcp_supplemental_data", 2),
    ("vcp_supplemental_data_mpda_vcp", "vcp_supplemental_data", 2), ("vcp_supplemental_data_base_tilt_vcp", "vcp_supplemental_data", 2),
    ("vcp_supplemental_data_base_tilts", "vcp_supplemental_data", 2), ("doppler_velocity_resolution", "doppler_velocity_resolution", 1)];
const CUT_ACC: [(&str, &str, usize); 22] = [
    ("super_resolution_control_half_degree_azimuth", "super_resolution_control", 1), ("super_resolution_control_quarter_km_reflectivity", "super_resolution_control", 1),
    ("super_resolution_control_doppler_to_300km", "super_resolution_control", 1), ("super_resolution_control_dual_polarization_to_300km", "super_resolution_control", 1),
    ("supplemental_data_sails_cut", "supplemental_data", 2), ("supplemental_data_sails_sequence_number", "supplemental_data", 2),
    ("supplemental_data_mrle_cut", "supplemental_data", 2), ("supplemental_data_mrle_sequence_number", "supplemental_data", 2),
    ("supplemental_data_mpda_cut", "supplemental_data", 2), ("supplemental_data_base_tilt_cut", "supplemental_data", 2),
    ("elevation_angle", "elevation_angle", 2), ("sector_1_edge_angle", "sector_1_edge_angle", 2), ("sector_2_edge_angle", "sector_2_edge_angle", 2),
    ("sector_3_edge_angle", "sector_3_edge_angle", 2), ("ebc_angle", "ebc_angle", 2), ("azimuth_rate", "azimuth_rate", 2),
    ("reflectivity_threshold", "reflectivity_threshold", 2), ("velocity_threshold", "velocity_threshold", 2), ("spectrum_width_threshold", "spectrum_width_threshold", 2),
    ("differential_reflectivity_threshold", "differential_reflectivity_threshold", 2), ("differential_phase_threshold", "differential_phase_threshold", 2),
    ("correlation_coefficient_threshold", "correlation_coefficient_threshold", 2)];

fn put_raw(b: &mut [u8], off: usize, width: usize, raw: u32) { if width == 1 { b[off] = raw as u8 } else { b[off..off + 2].copy_from_slice(&(raw as u16).to_be_bytes()) } }

pub fn run(args: &Args) {
    let l = Layouts::load();
    match args.mode.as_str() {
        "replay" => {
            let vectors = read_ndjson(args.input.as_deref().unwrap_or(""));
            let mut res = Results::create(args.out.as_deref().unwrap_or(""));
            for v in &vectors {
                let bytes = bytes_of(&v["bytes"]);
                let ncuts = v["cuts"].as_array().map(|a| a.len()).unwrap_or(0);
                res.case(fnv(&bytes), true);
                let small = json!({"bytes_len": bytes.len(), "hdr": v["hdr"], "expect": v["expect"]});
                // through the frame path: body padded to the fixed 2404 bytes
                let mut body = bytes.clone();
                body.resize(2404, 0);
                let framed = guarded(|| decode_message_contents(&mut Cursor::new(&body), MessageType::RDAVolumeCoveragePattern));
                if v["expect"] == json!("err") {
                    match framed {
                        Ok(Err(_)) => {}
                        Ok(Ok(_)) => res.mismatch("violation", "C11/decode/accepts_cut_count_beyond_frame", format!("declared cut count {} does not fit the frame but decoding succeeded", v["hdr"]["number_of_elevation_cuts"]), small.clone()),
                        Err(p) => res.mismatch("violation", "C11/decode/panic", p, small.clone()),
                    }
                    continue;
                }
                let direct = guarded(|| if dribbled(&bytes) { decode_volume_coverage_pattern(&mut Dribble::new(&bytes)) } else { decode_volume_coverage_pattern(&mut bytes.as_slice()) });
                let framed_msg = match framed { Ok(Ok(MessageContents::VolumeCoveragePattern(m))) => Some(*m), _ => None };
                match direct {
                    Ok(Ok(m)) => {
                        for (k, want) in fields_from_json(&v["hdr"]) { if vcp_header(&m.header).get(&k) != Some(&want) { res.mismatch("violation", &format!("C11/header/{k}"), format!("expected {:?}", want), small.clone()); } }
                        if m.elevations.len() != ncuts { res.mismatch("violation", "C11/decode/cut_count", format!("declared {} decoded {}", ncuts, m.elevations.len()), small.clone()); }
                        for (i, c) in m.elevations.iter().enumerate().take(ncuts) {
                            for (k, want) in fields_from_json(&v["cuts"][i]) { if vcp_cut(c).get(&k) != Some(&want) { res.mismatch("violation", &format!("C11/cut/{k}"), format!("cut {} expected {:?}", i, want), small.clone()); } }
                        }
                        if framed_msg.as_ref() != Some(&m) { res.mismatch("violation", "C11/decode/frame_path_differs", "decode_message_contents and decode_volume_coverage_pattern disagree".into(), small.clone()); }
                        if ncuts == 2 && !m.elevations.is_empty() { res.sample(json!({"cuts": 2, "bytes_len": bytes.len(), "first_cut": fields_json(&vcp_cut(&m.elevations[0]))})); }
                    }
                    Ok(Err(e)) => res.mismatch("violation", "C11/decode/rejects_wellformed", format!("{e:?}"), small.clone()),
                    Err(p) => res.mismatch("violation", "C11/decode/panic", p, small.clone()),
                }
            }
            res.finish();
        }
        "record" => {
            let mut tr = TraceOut::create(args.out.as_deref().unwrap_or(""));
            let mut res = Results::create(args.res.as_deref().unwrap_or(""));
            let base: Vec<u8> = { let mut b = vec![0u8; 22 + 46]; b[7] = 1; b };
            for (acc, field, width) in HEADER_ACC {
                let off = offset(&l, "vcp_header", field);
                let n = if width == 1 { 256 } else { 65536 };
                let vals: Vec<i64> = (0..n).map(|raw| { let mut b = base.clone(); put_raw(&mut b, off, width, raw); res.case(fnv(format!("{acc}{raw}").as_bytes()), true);
                    guarded(|| decode_one(&b).map(|m| header_acc(acc, &m.header)).unwrap_or(-998)).unwrap_or(-997) }).collect();
                tr.ev(json!({"acc": acc, "vals": vals}));
            }
            for (acc, field, width) in CUT_ACC {
                let off = 22 + offset(&l, "vcp_cut", field);
                let n = if width == 1 { 256 } else { 65536 };
                let vals: Vec<i64> = (0..n).map(|raw| { let mut b = base.clone(); put_raw(&mut b, off, width, raw); res.case(fnv(format!("{acc}{raw}").as_bytes()), true);
                    guarded(|| decode_one(&b).map(|m| cut_acc(acc, &m.elevations[0])).unwrap_or(-998)).unwrap_or(-997) }).collect();
                tr.ev(json!({"acc": acc, "vals": vals}));
            }
            // coded fields: Debug name for every byte code (pattern type: 0..255 of its halfword)
            let codes: [(&str, &str, usize, usize); 4] = [("channel_configuration", "vcp_cut", 22, 1), ("waveform_type", "vcp_cut", 22, 1), ("pulse_width", "vcp_header", 0, 1), ("pattern_type", "vcp_header", 0, 2)];
            for (acc, layout, basep, width) in codes {
                let off = basep + offset(&l, layout, acc);
                let names: Vec<String> = (0..256u32).map(|c| { let mut b = base.clone(); put_raw(&mut b, off, width, c);
                    guarded(|| decode_one(&b).map(|m| match acc {
                        "channel_configuration" => format!("{:?}", m.elevations[0].channel_configuration()), "waveform_type" => format!("{:?}", m.elevations[0].waveform_type()),
                        "pulse_width" => format!("{:?}", m.header.pulse_width()), _ => format!("{:?}", m.header.pattern_type()) }).unwrap_or_default()).unwrap_or("panic".into()) }).collect();
                tr.ev(json!({"acc": acc, "names": names}));
            }
            // count-driven decoding on exact, short and frame-sized inputs
            let mut rng = Rng::new(args.seed);
            let mut ns: Vec<usize> = vec![0, 1, 2, 3, 25, 50, 51, 52, 53, 100, 1000, 65535];
            for _ in 0..(if args.thorough { 200 } else { 30 }) { ns.push(rng.below(60) as usize); }
            for n in ns {
                let exact = 22 + 46 * n;
                for avail in [exact, exact.saturating_sub(1), exact.saturating_sub(46), exact + 5, 2404, 21, 22] {
                    if avail > 4_000_000 { continue; }
                    let mut b = rng.bytes(avail);
                    if avail >= 8 { b[6..8].copy_from_slice(&(n as u16).to_be_bytes()); } else { continue; }
                    res.case(fnv(format!("dec{n}/{avail}").as_bytes()), n > 0);
                    let r = guarded(|| decode_volume_coverage_pattern(&mut b.as_slice()));
                    let (out, got) = match r { Ok(Ok(m)) => ("ok", m.elevations.len()), Ok(Err(_)) => ("err", 0), Err(_) => ("panic", 0) };
                    tr.ev(json!({"dec": 1, "n": n, "avail": avail, "out": out, "got": got}));
                }
            }
            res.sample(json!({"accessors": HEADER_ACC.len() + CUT_ACC.len(), "raw_values_each": "all 65,536 (256 for byte fields)"}));
            tr.finish();
            res.finish();
        }
        m => { eprintln!("vcp: unknown mode {m}"); std::process::exit(2) }
    }
}
