//! C03: message stream framing against Framing.tla.
use crate::common::*;
use crate::drd::{build_message, random_block, Block};
use crate::icd::*;
use nexrad_decode::messages::{decode_messages, Message, MessageContents};
use serde_json::{json, Value};
use std::io::Cursor;

/// One symbol of Framing.tla: fixed frame of type t, or a contiguous type-31 message.
#[derive(Clone, Debug)]
pub enum Sym { F(u8), R(Vec<(String, usize, u8)>) }

pub fn sym_of(v: &Value) -> Sym {
    if v["k"] == json!("F") { Sym::F(v["t"].as_u64().unwrap_or(0) as u8) }
    else { Sym::R(v["blocks"].as_array().map(|a| a.iter().map(|b| (b[0].as_str().unwrap_or("").to_string(), b[1].as_u64().unwrap_or(0) as usize, b[2].as_u64().unwrap_or(8) as u8)).collect()).unwrap_or_default()) }
}
pub fn sym_json(s: &Sym) -> Value {
    match s { Sym::F(t) => json!({"k": "F", "t": t}), Sym::R(b) => json!({"k": "R", "blocks": b.iter().map(|(p, g, w)| json!([p, g, w])).collect::<Vec<_>>()}) }
}

pub fn msg_header_bytes(ty: u8, tag: u16, size_halfwords: u16) -> Vec<u8> {
    let mut b = vec![0u8; 28];
    b[12..14].copy_from_slice(&size_halfwords.to_be_bytes());
    b[14] = 8;
    b[15] = ty;
    b[16..18].copy_from_slice(&tag.to_be_bytes());
    b[18..20].copy_from_slice(&19_800u16.to_be_bytes());
    b[20..24].copy_from_slice(&((tag as u32) * 1000 + 1).to_be_bytes());
    b[24..26].copy_from_slice(&1u16.to_be_bytes());
    b[26..28].copy_from_slice(&1u16.to_be_bytes());
    b
}

/// The frame for a symbol; `tag` travels in the header's sequence number.
pub fn build_frame(l: &Layouts, rng: &mut Rng, s: &Sym, tag: u16) -> Vec<u8> {
    match s {
        Sym::F(t) => {
            // a fixed-length type occupies one 2,432-byte frame whatever its header's size fields say: the halfword count,
            // segment count and segment number vary, including the variable-length marker 0xFFFF with a 32-bit size
            let size = match rng.below(6) { 0 => 0xFFFF, 1 => 0, 2 => rng.next() as u16, _ => 1208 };
            let mut f = msg_header_bytes(*t, tag, size);
            if size != 1208 { let sc = rng.next() as u16; let sn = rng.next() as u16; f[24..26].copy_from_slice(&(if rng.chance(1, 2) { sc % 4 } else { sc }).to_be_bytes()); f[26..28].copy_from_slice(&sn.to_be_bytes()); }
            let mut body = rng.bytes(2404);
            if *t == 5 { body[6] = 0; body[7] = (tag % 7) as u8; } // VCP: a cut count that fits the frame
            f.extend_from_slice(&body);
            f
        }
        Sym::R(blocks) => {
            let mut f = msg_header_bytes(31, tag, 0xFFFF);
            let bl: Vec<Block> = blocks.iter().map(|(p, g, w)| random_block(l, rng, p, *g, if *w == 0 { 8 } else { *w }, 0)).collect();
            let ptrs: Vec<usize> = (0..bl.len()).collect();
            let hdr = l.get("drd_header").random(rng);
            f.extend_from_slice(&build_message(l, &hdr, &bl, &ptrs));
            f
        }
    }
}

/// Projection of a decoded message to comparable JSON (floats as bit patterns, no Debug/PartialEq).
pub fn project(m: &Message) -> Value {
    let contents = match m.contents() {
        MessageContents::DigitalRadarData(d) => json!({"kind": "drd", "hdr": fields_json(&drd_header(&d.header)), "prod": drd_products(d)}),
        MessageContents::RDAStatusData(r) => json!({"kind": "rda", "fields": fields_json(&rda_message(r))}),
        MessageContents::VolumeCoveragePattern(v) => json!({"kind": "vcp", "hdr": fields_json(&vcp_header(&v.header)), "cuts": v.elevations.iter().map(|c| fields_json(&vcp_cut(c))).collect::<Vec<_>>()}),
        MessageContents::ClutterFilterMap(_) => json!({"kind": "cfm"}),
        MessageContents::Other => json!({"kind": "other"}),
    };
    json!({"header": fields_json(&msg_header(m.header())), "contents": contents})
}

pub struct Outcome { pub out: &'static str, pub n: usize, pub tags: Vec<u64>, pub msgs: Vec<Value>, pub detail: String }

pub fn decode_stream(bytes: &[u8]) -> Outcome {
    let r = guarded(|| if dribbled(bytes) { decode_messages(&mut Dribble::new(bytes)) } else { decode_messages(&mut Cursor::new(bytes)) });
    match r {
        Err(p) => Outcome { out: "panic", n: 0, tags: vec![], msgs: vec![], detail: p },
        Ok(Err(e)) => Outcome { out: "err", n: 0, tags: vec![], msgs: vec![], detail: format!("{e:?}") },
        Ok(Ok(ms)) => Outcome { out: "ok", n: ms.len(), tags: ms.iter().map(|m| m.header().sequence_number as u64).collect(), msgs: ms.iter().map(project).collect(), detail: String::new() },
    }
}

/// Runs one stream/cut through decode_messages and Record::messages; returns the trace event.
fn exercise(l: &Layouts, rng: &mut Rng, syms: &[Sym], avail: usize, res: &mut Results) -> Value {
    let frames: Vec<Vec<u8>> = syms.iter().enumerate().map(|(k, s)| build_frame(l, rng, s, k as u16 + 1)).collect();
    let alone: Vec<Value> = frames.iter().map(|f| { let o = decode_stream(f); if o.n == 1 { o.msgs[0].clone() } else { json!({"standalone": o.out}) } }).collect();
    let mut stream: Vec<u8> = frames.concat();
    stream.truncate(avail);
    let o = decode_stream(&stream);
    let same = o.out != "ok" || o.msgs.iter().zip(o.tags.iter()).all(|(m, t)| *t >= 1 && (*t as usize) <= alone.len() && alone[*t as usize - 1] == *m);
    // the same bytes through nexrad-data's Record::messages must agree
    let rec = guarded(|| nexrad_data::volume::Record::new(stream.clone()).messages().map(|ms| ms.iter().map(|m| m.header().sequence_number as u64).collect::<Vec<_>>()));
    let rec_agrees = match (&rec, o.out) { (Ok(Ok(t)), "ok") => *t == o.tags, (Ok(Err(_)), "err") => true, _ => false };
    if !rec_agrees { res.mismatch("violation", "C03/record_messages/disagrees", format!("decode_messages {} vs Record::messages {:?}", o.out, rec.as_ref().map(|r| r.as_ref().map(|t| t.len()).map_err(|e| format!("{e:?}")))), json!({"syms": syms.iter().map(sym_json).collect::<Vec<_>>(), "avail": avail})); }
    json!({"syms": syms.iter().map(sym_json).collect::<Vec<_>>(), "avail": avail, "out": o.out, "n": o.n, "tags": o.tags, "same": same, "detail": o.detail})
}

pub fn run(args: &Args) {
    let l = Layouts::load();
    let mut rng = Rng::new(args.seed);
    match args.mode.as_str() {
        "replay" => {
            let vectors = read_ndjson(args.input.as_deref().unwrap_or(""));
            let mut res = Results::create(args.out.as_deref().unwrap_or(""));
            for v in &vectors {
                let syms: Vec<Sym> = v["syms"].as_array().map(|a| a.iter().map(sym_of).collect()).unwrap_or_default();
                let avail = v["avail"].as_u64().unwrap_or(0) as usize;
                res.case(hash_value(v), !syms.is_empty());
                let e = exercise(&l, &mut rng, &syms, avail, &mut res);
                let small = json!({"syms": v["syms"], "avail": avail, "total": v["total"], "expected": {"status": v["status"], "n": v["n"]}, "got": {"out": e["out"], "n": e["n"], "detail": e["detail"]}});
                let want_ok = v["status"] == json!("ok");
                match (want_ok, e["out"].as_str().unwrap_or("")) {
                    (_, "panic") => res.mismatch("violation", "C03/stream/panic", e["detail"].to_string(), small),
                    (false, "ok") => res.mismatch("violation", "C03/truncation/silent_shortening", "a stream cut inside a message body decoded without error".into(), small),
                    (true, "err") => res.mismatch("violation", "C03/stream/error_on_wellformed", e["detail"].to_string(), small),
                    (true, "ok") => {
                        if e["n"] != v["n"] { res.mismatch("violation", "C03/stream/count", format!("expected {} messages got {}", v["n"], e["n"]), small); }
                        else if e["tags"] != json!((1..=v["n"].as_u64().unwrap_or(0)).collect::<Vec<u64>>()) { res.mismatch("violation", "C03/stream/order", format!("tags {}", e["tags"]), small); }
                        else if e["same"] != json!(true) { res.mismatch("violation", "C03/stream/content", "a message differs from its stand-alone decode".into(), small); }
                    }
                    _ => {}
                }
                if syms.len() == 2 && avail > 3000 { res.sample(json!({"syms": v["syms"], "avail": avail, "expected": v["status"], "got": e["out"]})); }
            }
            res.finish();
        }
        "record" => {
            let mut tr = TraceOut::create(args.out.as_deref().unwrap_or(""));
            let mut res = Results::create(args.res.as_deref().unwrap_or(""));
            let r1 = Sym::R(vec![("VOL".into(), 0, 0), ("ELV".into(), 0, 0), ("RAD".into(), 0, 0), ("REF".into(), 460, 8), ("VEL".into(), 300, 8), ("PHI".into(), 200, 16)]);
            // full-resolution radial: 1,840 gates at 8 bit, 1,192 and 1,840 gates at 16 bit
            let r2 = Sym::R(vec![("VOL".into(), 0, 0), ("ELV".into(), 0, 0), ("RAD".into(), 0, 0), ("REF".into(), 1840, 8), ("VEL".into(), 1192, 8), ("ZDR".into(), 1840, 16), ("PHI".into(), 1192, 16), ("RHO".into(), 921, 16)]);
            let mut streams: Vec<(Vec<Sym>, usize)> = Vec::new();
            // all 256 type codes: alone, followed by a type-31 message, followed by a status frame (errors show on the NEXT message)
            for t in 0..=255u8 {
                if t == 31 { continue; }
                streams.push((vec![Sym::F(t)], usize::MAX));
                streams.push((vec![Sym::F(t), r1.clone()], usize::MAX));
                streams.push((vec![Sym::F(t), Sym::F(2), r1.clone()], usize::MAX));
                if t % 16 == 13 { streams.push((vec![Sym::F(t), r2.clone(), Sym::F(t), r1.clone()], usize::MAX)); }
            }
            // realistic mixes: metadata run, then radials; random interleavings; up to 300 messages
            let n_mix = if args.thorough { 60 } else { 10 };
            for k in 0..n_mix {
                let n = if k % 5 == 0 { 300 } else { rng.range(1, 60) as usize };
                let mut s = Vec::new();
                for j in 0..n {
                    let meta = j < n / 6 || rng.chance(1, 12);
                    if meta { s.push(Sym::F(*rng.pick(&[2u8, 5, 15, 18, 3, 13, 0, 255, 29]))); }
                    else {
                        let all = ["VOL", "ELV", "RAD", "REF", "VEL", "SW", "ZDR", "PHI", "RHO", "CFP"];
                        let mut keep: Vec<(String, usize, u8)> = Vec::new();
                        for p in all { if rng.chance(4, 5) { keep.push((p.to_string(), *rng.pick(&[0usize, 1, 120, 460, 921, 1840]), if p == "PHI" || rng.chance(1, 6) { 16 } else { 8 })); } }
                        s.push(Sym::R(keep));
                    }
                }
                let cut = if rng.chance(1, 2) { usize::MAX } else { rng.below(2432 * n as u64) as usize };
                streams.push((s, cut));
            }
            // every truncation point of 3-message streams (thorough), a stride in quick
            let three = vec![Sym::F(2), r1.clone(), Sym::F(15)];
            let total: usize = 2432 + 28 + 32 + 24 + 52 + 12 + 28 + 28 * 3 + 460 + 300 + 400 + 2432;
            let stride = if args.thorough { 1 } else { 37 };
            let mut c = 0;
            while c <= total { streams.push((three.clone(), c)); c += stride; }
            for (syms, cut) in streams {
                let full: usize = syms.iter().map(|s| match s { Sym::F(_) => 2432, Sym::R(b) => 28 + 32 + 4 * b.len() + b.iter().map(|(p, g, w)| l.get(block_layout(p)).size() + if is_moment(p) { g * (*w as usize / 8) } else { 0 }).sum::<usize>() }).sum();
                let avail = cut.min(full);
                res.case(fnv(format!("{:?}{}", syms, avail).as_bytes()), !syms.is_empty());
                let e = exercise(&l, &mut rng, &syms, avail, &mut res);
                tr.ev(e);
            }
            res.sample(json!({"streams": "all 256 type codes alone / before a type-31 / before status+type-31; seeded mixes up to 300 messages; truncation sweep of a 3-message stream"}));
            tr.finish();
            res.finish();
        }
        m => { eprintln!("frames: unknown mode {m}"); std::process::exit(2) }
    }
}
