//! Growth (Coded.tla): census of the coded accessors of the decode crate as partial functions.  For every raw
//! value of the field (all 256 for one-byte codes, a dense sample for two-byte codes) the accessor is called on
//! a message DECODED from bytes carrying that value; a panic is data.  Informational: never a verdict.
use crate::common::*;
use crate::drd::{build_message, random_block};
use crate::icd::*;
use nexrad_decode::messages::clutter_filter_map::decode_clutter_filter_map;
use nexrad_decode::messages::decode_message_header;
use nexrad_decode::messages::digital_radar_data::decode_digital_radar_data;
use nexrad_decode::messages::rda_status_data::decode_rda_status_message;
use serde_json::json;
use std::io::Cursor;

fn raws(width: usize, rng: &mut Rng) -> Vec<u32> {
    if width == 1 { return (0..=255).collect(); }
    let mut v: Vec<u32> = (0..=1100).collect();
    for k in 0..16 { let p = 1u32 << k; v.extend_from_slice(&[p.saturating_sub(1), p, p + 1]); }
    v.extend_from_slice(&[32767, 32768, 65534, 65535]);
    for _ in 0..1500 { v.push(rng.below(65536) as u32); }
    v.sort(); v.dedup(); v.retain(|x| *x <= 65535);
    v
}

struct Row { acc: &'static str, width: usize, panics: Vec<u32>, fine: Vec<u32>, debug_panics_at: Option<u32> }

pub fn run(args: &Args) {
    let l = Layouts::load();
    let mut rng = Rng::new(args.seed);
    let mut tr = TraceOut::create(args.out.as_deref().unwrap_or(""));
    let mut res = Results::create(args.res.as_deref().unwrap_or(""));
    let mut rows: Vec<Row> = Vec::new();
    // ---- RDA status: eleven coded accessors over their halfword
    let rda_off = |f: &str| l.get("rda").fields.iter().find(|x| x.0 == f).map(|x| x.2).unwrap_or(0);
    type RdaAcc = (&'static str, &'static str, fn(&nexrad_decode::messages::rda_status_data::Message));
    let rda: Vec<RdaAcc> = vec![
        ("rda_status", "rda_status", |m| { let _ = m.rda_status(); }), ("operability_status", "operability_status", |m| { let _ = m.operability_status(); }),
        ("control_status", "control_status", |m| { let _ = m.control_status(); }), ("auxiliary_power_generator_state", "auxiliary_power_generator_state", |m| { let _ = m.auxiliary_power_generator_state(); }),
        ("rda_control_authorization", "rda_control_authorization", |m| { let _ = m.rda_control_authorization(); }), ("operational_mode", "operational_mode", |m| { let _ = m.operational_mode(); }),
        ("super_resolution_status", "super_resolution_status", |m| { let _ = m.super_resolution_status(); }), ("spot_blanking_status", "spot_blanking_status", |m| { let _ = m.spot_blanking_status(); }),
        ("transition_power_source_status", "transition_power_source_status", |m| { let _ = m.transition_power_source_status(); }), ("rms_control_status", "rms_control_status", |m| { let _ = m.rms_control_status(); }),
        ("performance_check_status", "performance_check_status", |m| { let _ = m.performance_check_status(); }),
    ];
    // a status message whose every coded field holds a documented code, so that Debug isolates the field under test
    let mut base = vec![0u8; 120];
    for (f, v) in [("rda_status", 16u16), ("operability_status", 2), ("control_status", 2), ("auxiliary_power_generator_state", 2), ("operational_mode", 4), ("super_resolution_status", 2)] { let o = rda_off(f); base[o..o + 2].copy_from_slice(&v.to_be_bytes()); }
    for (acc, field, f) in &rda {
        let off = rda_off(field);
        let mut row = Row { acc, width: 2, panics: vec![], fine: vec![], debug_panics_at: None };
        for raw in raws(2, &mut rng) {
            let mut b = base.clone();
            b[off..off + 2].copy_from_slice(&(raw as u16).to_be_bytes());
            let m = match decode_rda_status_message(&mut b.as_slice()) { Ok(m) => m, Err(_) => continue };
            res.case(fnv(&b) ^ raw as u64, true);
            if guarded(|| f(&m)).is_err() { row.panics.push(raw); if row.debug_panics_at.is_none() && guarded(|| format!("{:?}", m)).is_err() { row.debug_panics_at = Some(raw); } } else { row.fine.push(raw); }
        }
        rows.push(row);
    }
    // ---- message header: redundant channel (one byte)
    {
        let off = l.get("msg_header").fields.iter().find(|x| x.0 == "redundant_channel").map(|x| x.2).unwrap_or(0);
        let mut row = Row { acc: "hdr_rda_redundant_channel", width: 1, panics: vec![], fine: vec![], debug_panics_at: None };
        for raw in raws(1, &mut rng) {
            let mut b = crate::frames::msg_header_bytes(2, 1, 1208);
            b[off] = raw as u8;
            let h = match decode_message_header(&mut b.as_slice()) { Ok(h) => h, Err(_) => continue };
            res.case(fnv(&b), true);
            if guarded(|| { let _ = h.rda_redundant_channel(); }).is_err() { row.panics.push(raw); if row.debug_panics_at.is_none() && guarded(|| format!("{:?}", h)).is_err() { row.debug_panics_at = Some(raw); } } else { row.fine.push(raw); }
        }
        rows.push(row);
    }
    // ---- type 31: control flags of a moment block (one byte), pattern number of the volume block (two bytes)
    for (acc, width) in [("drd_control_flags", 1usize), ("vol_volume_coverage_pattern", 2)] {
        let mut row = Row { acc, width, panics: vec![], fine: vec![], debug_panics_at: None };
        for raw in raws(width, &mut rng) {
            let mut vol = random_block(&l, &mut rng, "VOL", 0, 8, 0);
            let mut refl = random_block(&l, &mut rng, "REF", 3, 8, 0);
            vol.rec.insert("volume_coverage_pattern_number".into(), (if width == 2 { raw as u16 } else { 212 }).to_be_bytes().to_vec());
            refl.rec.insert("control_flags".into(), vec![if width == 1 { raw as u8 } else { 0 }]);
            let hdr = l.get("drd_header").random(&mut rng);
            let bytes = build_message(&l, &hdr, &[vol, refl], &[0, 1]);
            let m = match decode_digital_radar_data(&mut Cursor::new(&bytes)) { Ok(m) => m, Err(_) => continue };
            res.case(fnv(&bytes), true);
            let r = if width == 1 { guarded(|| { let _ = m.reflectivity_data_block.as_ref().map(|b| b.header.control_flags()); }) } else { guarded(|| { let _ = m.volume_data_block.as_ref().map(|b| b.volume_coverage_pattern()); }) };
            if r.is_err() { row.panics.push(raw); if row.debug_panics_at.is_none() && guarded(|| format!("{:?}", m)).is_err() { row.debug_panics_at = Some(raw); } } else { row.fine.push(raw); }
        }
        rows.push(row);
    }
    // ---- clutter filter map: operation code of a range zone (two bytes); one map carries all sampled codes
    {
        let rs = raws(2, &mut rng);
        let mut map: Vec<Vec<Vec<(u16, u16)>>> = vec![vec![vec![]; 360]];
        for (k, raw) in rs.iter().enumerate() { map[0][k % 360].push((*raw as u16, k as u16)); }
        let bytes = crate::cfm::encode(19_800, 600, 1, &map);
        let mut row = Row { acc: "cfm_op_code", width: 2, panics: vec![], fine: vec![], debug_panics_at: None };
        if let Ok(m) = decode_clutter_filter_map(&mut bytes.as_slice()) {
            for seg in &m.elevation_segments { for az in &seg.azimuth_segments { for z in &az.range_zones {
                res.case(z.op_code as u64 ^ 0xC0DE, true);
                if guarded(|| { let _ = z.op_code(); }).is_err() { row.panics.push(z.op_code as u32); if row.debug_panics_at.is_none() && guarded(|| format!("{:?}", z)).is_err() { row.debug_panics_at = Some(z.op_code as u32); } } else { row.fine.push(z.op_code as u32); }
            } } }
        }
        row.panics.sort(); row.fine.sort();
        rows.push(row);
    }
    // ---- meanings of the documented codes and ICD scalings of the type-31 accessors (uom feature on, as by default)
    {
        let mut meaning: std::collections::BTreeMap<&str, Vec<(u32, String)>> = Default::default();
        let mut scaled: std::collections::BTreeMap<&str, Vec<(i64, i64)>> = Default::default();
        let sample16: Vec<u32> = { let mut v: Vec<u32> = vec![0, 1, 2, 3, 4, 250, 500, 999, 1000, 1001, 2125, 4000, 32767, 32768, 65534, 65535]; for _ in 0..40 { v.push(rng.below(65536) as u32); } v };
        for raw in 0..=255u32 {
            let mut vol = random_block(&l, &mut rng, "VOL", 0, 8, 0);
            let vcps = [12u16, 31, 35, 112, 212, 215];
            let vcp = vcps[raw as usize % 6];
            vol.rec.insert("volume_coverage_pattern_number".into(), vcp.to_be_bytes().to_vec());
            let mut refl = random_block(&l, &mut rng, "REF", 2, if raw % 2 == 0 { 8 } else { 16 }, 0);
            refl.rec.insert("control_flags".into(), vec![(raw % 4) as u8]);
            let r16 = sample16[raw as usize % sample16.len()];
            refl.rec.insert("data_moment_range".into(), (r16 as u16).to_be_bytes().to_vec());
            refl.rec.insert("data_moment_range_sample_interval".into(), ((r16 ^ 0x55) as u16).to_be_bytes().to_vec());
            let mut hdr = l.get("drd_header").random(&mut rng);
            hdr.insert("compression_indicator".into(), vec![raw as u8]);
            hdr.insert("radial_status".into(), vec![(raw * 7 % 256) as u8]);
            hdr.insert("azimuth_resolution_spacing".into(), vec![raw as u8]);
            hdr.insert("azimuth_indexing_mode".into(), vec![(raw * 3 % 256) as u8]);
            hdr.insert("radial_length".into(), (r16 as u16).to_be_bytes().to_vec());
            let mut rad = random_block(&l, &mut rng, "RAD", 0, 8, 0);
            rad.rec.insert("unambiguous_range".into(), (r16 as u16).to_be_bytes().to_vec());
            rad.rec.insert("nyquist_velocity".into(), ((r16 ^ 0x1234) as u16).to_be_bytes().to_vec());
            let bytes = build_message(&l, &hdr, &[vol, refl, rad], &[0, 1, 2]);
            let m = match decode_digital_radar_data(&mut Cursor::new(&bytes)) { Ok(m) => m, Err(_) => continue };
            res.case(fnv(&bytes) ^ 0x5CA1ED, true);
            let (g, v) = match (m.reflectivity_data_block.as_ref(), m.volume_data_block.as_ref()) { (Some(g), Some(v)) => (g, v), _ => continue };
            let h = &m.header;
            let _ = guarded(|| {
                meaning.entry("drd_control_flags").or_default().push((raw % 4, format!("{:?}", g.header.control_flags())));
                meaning.entry("drd_compression_indicator").or_default().push((raw, format!("{:?}", h.compression_indicator())));
                meaning.entry("drd_radial_status").or_default().push((raw * 7 % 256, format!("{:?}", h.radial_status())));
                meaning.entry("vol_volume_coverage_pattern").or_default().push((vcp as u32, format!("{:?}", v.volume_coverage_pattern())));
                let km = |x: uom::si::f64::Length| (x.get::<uom::si::length::kilometer>() * 1000.0).round() as i64;
                let deg = |x: uom::si::f64::Angle, den: f64| (x.get::<uom::si::angle::degree>() * den).round() as i64;
                scaled.entry("gen_data_moment_range").or_default().push((g.header.data_moment_range as i64, km(g.header.data_moment_range())));
                scaled.entry("gen_data_moment_range_sample_interval").or_default().push((g.header.data_moment_range_sample_interval as i64, km(g.header.data_moment_range_sample_interval())));
                scaled.entry("gen_moment_size_x8").or_default().push((g.header.number_of_data_moment_gates as i64 * g.header.data_word_size as i64, (g.header.moment_size().get::<uom::si::information::byte>() * 8.0).round() as i64));
                scaled.entry("hdr_azimuth_resolution_spacing").or_default().push((h.azimuth_resolution_spacing as i64, deg(h.azimuth_resolution_spacing(), 2.0)));
                scaled.entry("hdr_azimuth_indexing_mode").or_default().push((h.azimuth_indexing_mode as i64, h.azimuth_indexing_mode().map(|a| deg(a, 100.0)).unwrap_or(-1)));
                if let Some(rd) = m.radial_data_block.as_ref() {
                    scaled.entry("rad_nyquist_velocity").or_default().push((rd.nyquist_velocity as i64, (rd.nyquist_velocity().get::<uom::si::velocity::meter_per_second>() * 100.0).round() as i64));
                    scaled.entry("rad_unambiguous_range").or_default().push((rd.unambiguous_range as i64, km(rd.unambiguous_range()) / 1000));
                }
                scaled.entry("hdr_radial_length").or_default().push((h.radial_length as i64, h.radial_length().get::<uom::si::information::byte>().round() as i64));
            });
        }
        for (acc, v) in meaning { tr.ev(json!({"acc": acc, "meaning": v.iter().map(|(r, n)| json!([r, n])).collect::<Vec<_>>()})); }
        for (acc, v) in scaled { tr.ev(json!({"acc": acc, "scaled": v.iter().map(|(r, x)| json!([r, x])).collect::<Vec<_>>()})); }
    }
    for r in rows {
        tr.ev(json!({"acc": r.acc, "width": r.width, "tried": r.panics.len() + r.fine.len(), "panics": r.panics.len(), "first_panic": r.panics.first().map(|x| *x as i64).unwrap_or(-1), "returns_for": r.fine.iter().take(40).collect::<Vec<_>>(),
                     "returns": r.fine.len(), "debug_panics_at": r.debug_panics_at.map(|x| x as i64).unwrap_or(-1)}));
    }
    tr.finish();
    res.finish();
}
