//! C14: summarize::messages against Summary.tla.
use crate::common::*;
use crate::drd::{build_message, random_block, Block};
use crate::icd::*;
use chrono::{DateTime, Datelike, Timelike, Utc};
use nexrad_decode::messages::digital_radar_data::VolumeCoveragePattern;
use nexrad_decode::messages::{decode_messages, Message, MessageContents};
use nexrad_decode::summarize;
use serde_json::{json, Map, Value};
use std::io::Cursor;

#[derive(Clone, Debug)]
pub struct Sym { pub k: String, pub ty: u8, pub el: i64, pub vcp: u64, pub tm: u64, pub ps: Vec<String> }

fn sym_of(v: &Value) -> Sym {
    Sym { k: v["k"].as_str().unwrap_or("").into(), ty: v["ty"].as_u64().unwrap_or(0) as u8, el: v["el"].as_i64().unwrap_or(-1), vcp: v["vcp"].as_u64().unwrap_or(0), tm: v["tm"].as_u64().unwrap_or(0),
          ps: v["ps"].as_array().map(|a| a.iter().map(|p| p.as_str().unwrap_or("").to_string()).collect()).unwrap_or_default() }
}
fn sym_json(s: &Sym) -> Value { let mut ps = s.ps.clone(); ps.sort(); json!({"k": s.k, "ty": s.ty, "el": s.el, "vcp": s.vcp, "tm": s.tm, "ps": ps}) }

fn header(ty: u8, tag: u16, tm: u64) -> Vec<u8> {
    let mut b = vec![0u8; 28];
    b[12..14].copy_from_slice(&1208u16.to_be_bytes());
    b[14] = 8;
    b[15] = ty;
    b[16..18].copy_from_slice(&tag.to_be_bytes());
    // symbolic time 0 = the epoch itself ("not timestamped"), 1 = the smallest positive instant (one millisecond
    // after the epoch), k >= 2 = k seconds into day 19,800
    let (date, ms): (u16, u32) = match tm { 0 => (1, 0), 1 => (1, 1), _ => (19_800, tm as u32 * 1000) };
    b[18..20].copy_from_slice(&date.to_be_bytes());
    b[20..24].copy_from_slice(&ms.to_be_bytes());
    b
}

fn frame(l: &Layouts, rng: &mut Rng, s: &Sym, idx: usize) -> Vec<u8> {
    let mut f = header(s.ty, idx as u16, s.tm);
    match s.k.as_str() {
        "R" => {
            let mut blocks: Vec<Block> = Vec::new();
            if s.vcp != 0 { let mut b = random_block(l, rng, "VOL", 0, 8, 0); b.rec.insert("volume_coverage_pattern_number".into(), (s.vcp as u16).to_be_bytes().to_vec()); blocks.push(b); }
            blocks.push(random_block(l, rng, "RAD", 0, 8, 0));
            for p in &s.ps { let g = rng.below(4) as usize; blocks.push(random_block(l, rng, p, g, if p == "PHI" { 16 } else { 8 }, 0)); }
            let mut hdr = l.get("drd_header").random(rng);
            hdr.insert("elevation_number".into(), vec![s.el as u8]);
            hdr.insert("azimuth_angle".into(), (idx as f32 * 0.5 + 0.25).to_bits().to_be_bytes().to_vec());
            hdr.insert("elevation_angle".into(), (s.el as f32 * 0.5).to_bits().to_be_bytes().to_vec());
            let ptrs: Vec<usize> = (0..blocks.len()).collect();
            f.extend_from_slice(&build_message(l, &hdr, &blocks, &ptrs));
        }
        "S" => {
            let mut body = vec![0u8; 2404];
            let set = |body: &mut Vec<u8>, name: &str, v: u16| { let off = l.get("rda").fields.iter().find(|x| x.0 == name).map(|x| x.2).unwrap_or(0); body[off..off + 2].copy_from_slice(&v.to_be_bytes()); };
            set(&mut body, "rda_status", 16); set(&mut body, "operability_status", 2); set(&mut body, "control_status", 2); set(&mut body, "operational_mode", 4);
            set(&mut body, "super_resolution_status", 2); set(&mut body, "rda_scan_and_data_flags", 2); set(&mut body, "data_transmission_enabled", 2);
            set(&mut body, "auxiliary_power_generator_state", 2); set(&mut body, "volume_coverage_pattern", 212); set(&mut body, "average_transmitter_power", idx as u16);
            f.extend_from_slice(&body);
        }
        "V" => {
            let mut body = rng.bytes(2404);
            body[6] = 0; body[7] = 2;
            f.extend_from_slice(&body);
        }
        _ => f.extend_from_slice(&rng.bytes(2404)),
    }
    f
}

fn tm_of(t: Option<DateTime<Utc>>) -> i64 {
    match t { None => -1, Some(t) => { if t.timestamp_millis() == 0 { 0 } else if t.timestamp_millis() == 1 { 1 } else if t.year() == 2024 || t.year() >= 1970 { (t.num_seconds_from_midnight()) as i64 } else { -2 } } }
}
fn label_to_product(l: &str) -> &'static str {
    match l { "Reflectivity" => "REF", "Velocity" => "VEL", "Spectrum Width" => "SW", "Differential Reflectivity" => "ZDR", "Differential Phase" => "PHI", "Correlation Coefficient" => "RHO", "Specific Differential Phase" => "CFP", _ => "?" }
}
fn vcp_num(v: &VolumeCoveragePattern) -> u64 { match v { VolumeCoveragePattern::VCP12 => 12, VolumeCoveragePattern::VCP31 => 31, VolumeCoveragePattern::VCP35 => 35, VolumeCoveragePattern::VCP112 => 112, VolumeCoveragePattern::VCP212 => 212, VolumeCoveragePattern::VCP215 => 215 } }

/// Builds the frames, decodes them, summarizes, and projects the summary to the specification's terms.
pub fn exercise(l: &Layouts, rng: &mut Rng, syms: &[Sym]) -> Value {
    let stream: Vec<u8> = syms.iter().enumerate().map(|(k, s)| frame(l, rng, s, k)).collect::<Vec<_>>().concat();
    let msgs: Vec<Message> = match decode_messages(&mut Cursor::new(&stream)) { Ok(m) => m, Err(e) => { eprintln!("summary: driver-built stream does not decode: {e:?}"); std::process::exit(2) } };
    if msgs.len() != syms.len() { eprintln!("summary: decoded {} of {} messages", msgs.len(), syms.len()); std::process::exit(2); }
    let r = guarded(|| summarize::messages(&msgs));
    let sj: Vec<Value> = syms.iter().map(sym_json).collect();
    let s = match r { Ok(s) => s, Err(p) => return json!({"msgs": sj, "groups": [], "earliest": -1, "latest": -1, "vcps": [], "extras_ok": false, "panic": true, "detail": p}) };
    let mut extras_ok = true;
    let groups: Vec<Value> = s.message_groups.iter().map(|g| {
        let (a, b) = (g.start_message_index, g.end_message_index);
        let first = msgs.get(a);
        let is_r = matches!(first.map(|m| m.contents()), Some(MessageContents::DigitalRadarData(_)));
        // member-derived fields: type, first/last azimuth, elevation angle, presence of rda/vcp info
        if let Some(fm) = first {
            extras_ok &= g.message_type == fm.header().message_type();
            extras_ok &= (a..=b.min(msgs.len().saturating_sub(1))).all(|x| msgs[x].header().message_type() == g.message_type);
            match (fm.contents(), msgs.get(b).map(|m| m.contents())) {
                (MessageContents::DigitalRadarData(fd), Some(MessageContents::DigitalRadarData(ld))) => {
                    extras_ok &= g.start_azimuth.map(|x| x.to_bits()) == Some(fd.header.azimuth_angle.to_bits()) && g.end_azimuth.map(|x| x.to_bits()) == Some(ld.header.azimuth_angle.to_bits());
                    extras_ok &= g.elevation_angle.map(|x| x.to_bits()) == Some(fd.header.elevation_angle.to_bits()) && g.data_types.is_some();
                }
                _ => { extras_ok &= g.start_azimuth.is_none() && g.end_azimuth.is_none() && g.elevation_angle.is_none() && g.data_types.is_none(); }
            }
            extras_ok &= g.rda_status_info.is_some() == matches!(fm.contents(), MessageContents::RDAStatusData(_));
            extras_ok &= g.vcp_info.is_some() == matches!(fm.contents(), MessageContents::VolumeCoveragePattern(_));
        } else { extras_ok = false; }
        let dts: Map<String, Value> = g.data_types.as_ref().map(|d| d.iter().map(|(k, v)| (label_to_product(k).to_string(), json!(v))).collect()).unwrap_or_default();
        json!({"ty": first.map(|m| m.header().message_type).unwrap_or(0), "el": if is_r { g.elevation_number.map(|e| e as i64).unwrap_or(-1) } else { g.elevation_number.map(|_| -3).unwrap_or(-1) },
               "first": a, "last": b, "count": g.message_count, "st": tm_of(g.start_time), "et": tm_of(g.end_time), "cont": g.is_continued, "dts": Value::Object(dts)})
    }).collect();
    let mut vcps: Vec<u64> = s.volume_coverage_patterns.iter().map(vcp_num).collect();
    vcps.sort();
    json!({"msgs": sj, "groups": groups, "earliest": tm_of(s.earliest_collection_time), "latest": tm_of(s.latest_collection_time), "vcps": vcps, "extras_ok": extras_ok, "panic": false})
}

fn classify(want: &Value, got: &Value) -> &'static str {
    let (w, g) = (want.as_array().cloned().unwrap_or_default(), got.as_array().cloned().unwrap_or_default());
    if w.len() != g.len() { return "C14/groups/count"; }
    for (a, b) in w.iter().zip(g.iter()) {
        if a["first"] != b["first"] || a["last"] != b["last"] || a["count"] != b["count"] { return "C14/groups/tiling"; }
        if a["cont"] != b["cont"] { return "C14/groups/continued"; }
        if a["dts"] != b["dts"] { return "C14/groups/data_types"; }
        if a["st"] != b["st"] || a["et"] != b["et"] { return "C14/groups/times"; }
    }
    "C14/groups/fields"
}

pub fn run(args: &Args) {
    let l = Layouts::load();
    let mut rng = Rng::new(args.seed);
    match args.mode.as_str() {
        "replay" => {
            let vectors = read_ndjson(args.input.as_deref().unwrap_or(""));
            let mut res = Results::create(args.out.as_deref().unwrap_or(""));
            for v in &vectors {
                let syms: Vec<Sym> = v["msgs"].as_array().map(|a| a.iter().map(sym_of).collect()).unwrap_or_default();
                res.case(hash_value(&v["msgs"]), syms.len() >= 2);
                let e = exercise(&l, &mut rng, &syms);
                // TLC serialises an empty function as []; the code's empty map is {}
                let mut v = v.clone();
                if let Some(gs) = v["groups"].as_array_mut() { for g in gs { if g["dts"] == json!([]) { g["dts"] = json!({}); } } }
                let v = &v;
                let small = json!({"msgs": v["msgs"], "expected": {"groups": v["groups"], "earliest": v["earliest"], "latest": v["latest"], "vcps": v["vcps"]}, "got": {"groups": e["groups"], "earliest": e["earliest"], "latest": e["latest"], "vcps": e["vcps"]}});
                if e["panic"] == json!(true) { res.mismatch("violation", "C14/panic", e["detail"].to_string(), small); continue; }
                if e["groups"] != v["groups"] { res.mismatch("violation", classify(&v["groups"], &e["groups"]), "groups differ from the specification's".into(), small.clone()); }
                if e["earliest"] != v["earliest"] || e["latest"] != v["latest"] { res.mismatch("violation", "C14/time_range", format!("expected {}..{} got {}..{}", v["earliest"], v["latest"], e["earliest"], e["latest"]), small.clone()); }
                let mut want_v = u64s(&v["vcps"]); want_v.sort();
                if json!(want_v) != e["vcps"] { res.mismatch("violation", "C14/vcp_set", format!("expected {:?} got {}", want_v, e["vcps"]), small.clone()); }
                if e["extras_ok"] != json!(true) { res.mismatch("violation", "C14/groups/member_fields", "type / azimuth / angle / info presence differ from the member messages".into(), small.clone()); }
                if syms.len() == 4 { res.sample(json!({"msgs": v["msgs"], "groups": e["groups"]})); }
            }
            res.finish();
        }
        "record" => {
            let mut tr = TraceOut::create(args.out.as_deref().unwrap_or(""));
            let mut res = Results::create(args.res.as_deref().unwrap_or(""));
            let all = ["REF", "VEL", "SW", "ZDR", "PHI", "RHO", "CFP"];
            let vcpn = [12u64, 31, 35, 112, 212, 215];
            let lists = if args.thorough { 120 } else { 25 };
            for k in 0..lists {
                let n = match k % 6 { 0 => 0, 1 => 1, 2 => 500, _ => rng.range(2, 120) } as usize;
                let nel = 1 + rng.below(6);
                let mut syms = Vec::with_capacity(n);
                let mut el = 1;
                for j in 0..n {
                    let tm = if rng.chance(1, 40) { 0 } else { if rng.chance(1, 10) { rng.range(1, 86_399) } else { (j as u64 % 86_000) + 1 } };
                    let s = match rng.below(20) {
                        0 => Sym { k: "S".into(), ty: 2, el: -1, vcp: 0, tm, ps: vec![] },
                        1 => Sym { k: "V".into(), ty: 5, el: -1, vcp: 0, tm, ps: vec![] },
                        2 | 3 => Sym { k: "O".into(), ty: *rng.pick(&[15u8, 18, 3, 13, 0, 255, 15]), el: -1, vcp: 0, tm, ps: vec![] },
                        _ => {
                            if rng.chance(1, 9) { el = 1 + rng.below(nel); }
                            let ps: Vec<String> = all.iter().filter(|_| rng.chance(1, 2)).map(|p| p.to_string()).collect();
                            Sym { k: "R".into(), ty: 31, el: el as i64, vcp: if rng.chance(1, 7) { *rng.pick(&vcpn) } else { 0 }, tm, ps }
                        }
                    };
                    syms.push(s);
                }
                if k % 6 == 2 {
                    // an elevation that comes back after several hundred intervening groups (each radial below is a group of its own)
                    let far = Sym { k: "R".into(), ty: 31, el: 9, vcp: 0, tm: 5, ps: vec!["REF".into()] };
                    let mut long = vec![far.clone()];
                    let gap = 258 + rng.below(60) as usize;
                    for j in 0..gap { long.push(Sym { k: "R".into(), ty: 31, el: 7 + (j as i64 % 2), vcp: 0, tm: 6 + j as u64, ps: vec![] }); }
                    long.push(far);
                    long.extend(syms.drain(..).take(40));
                    syms = long;
                }
                res.case(fnv(format!("{:?}", syms).as_bytes()), n >= 2);
                tr.ev(exercise(&l, &mut rng, &syms));
            }
            res.sample(json!({"lists": lists, "lengths": "0, 1, 500 and seeded 2..120; radial/status/VCP/other interleaved"}));
            tr.finish();
            res.finish();
        }
        m => { eprintln!("summary: unknown mode {m}"); std::process::exit(2) }
    }
}
