------------------------------- MODULE MC_S3 -------------------------------
(* (a) the parser machine on listing responses of 0..2 objects: every child order from a set of six,
       unknown elements interleaved, key text in one or two character runs, sizes incl. 2^64-1 and an
       unparsable one: exactly one object per Contents with its Key / LastModified / Size;
   (b) List on all buckets over a small key set: sorted, filtered, truncated. *)
EXTENDS S3
VARIABLE want

Child(kind, o) == CASE kind = "K" -> << <<"S", "Key">> >> \o [r \in DOMAIN o.runs |-> <<"C", o.runs[r]>>] \o << <<"E", "Key">> >>
                    [] kind = "L" -> << <<"S", "LastModified">>, <<"C", o.lm>>, <<"E", "LastModified">> >>
                    [] kind = "Z" -> << <<"S", "Size">>, <<"C", o.size>>, <<"E", "Size">> >>
                    [] kind = "T" -> << <<"S", "ETag">>, <<"C", "&quot;x&quot;">>, <<"E", "ETag">> >>
                    [] OTHER -> << <<"S", "StorageClass">>, <<"C", "STANDARD">>, <<"E", "StorageClass">> >>
Orders == {<<"K", "L", "T", "Z", "C">>, <<"Z", "K", "L", "C", "T">>, <<"T", "C", "L", "Z", "K">>, <<"L", "Z", "K">>, <<"K", "Z">>, <<"C", "K", "T", "L", "Z">>}
RECURSIVE ConcatAll(_)
ConcatAll(ss) == IF ss = <<>> THEN <<>> ELSE Head(ss) \o ConcatAll(Tail(ss))
ContentsEvents(o, ord) == << <<"S", "Contents">> >> \o ConcatAll([k \in DOMAIN ord |-> Child(ord[k], o)]) \o << <<"E", "Contents">> >>
Envelope(inner, tr) == << <<"S", "ListBucketResult">>, <<"S", "Name">>, <<"C", "bucket">>, <<"E", "Name">>, <<"S", "IsTruncated">>, <<"C", tr>>, <<"E", "IsTruncated">> >>
                       \o inner \o << <<"E", "ListBucketResult">> >>
RECURSIVE JoinRuns(_)
JoinRuns(rs) == IF rs = <<>> THEN "" ELSE Head(rs) \o JoinRuns(Tail(rs))
Objs == {[runs |-> r, lm |-> l, size |-> z] : r \in {<<"A/1/x-001-S">>, <<"a&", "b<c">>, <<"q">>}, l \in {"2024-05-01T00:00:00.000Z"}, z \in {"5", "18446744073709551615", "1e3"}}
Cases == {<<Envelope(<<>>, t), <<>>, t, FALSE>> : t \in {"true", "false"}}
    \cup {<<Envelope(ContentsEvents(o, ord), t), <<o>>, t, o.size = "1e3">> : o \in Objs, ord \in Orders, t \in {"false"}}
    \cup {<<Envelope(ContentsEvents(o, ord) \o ContentsEvents(p, ord2), "true"), <<o, p>>, "true", o.size = "1e3" \/ p.size = "1e3">> : o \in Objs, p \in {x \in Objs : x.size = "5"}, ord \in {Orders2 \in Orders : Len(Orders2) = 5}, ord2 \in {<<"K", "Z">>, <<"L", "Z", "K">>}}
MInit == \E c \in Cases : PInit(c[1]) /\ want = <<c[2], c[3], c[4]>>
MNext == PNext /\ UNCHANGED want
MSpec == MInit /\ [][MNext]_<<pvars, want>> /\ WF_pvars(PNext)
HasChild(ord, k) == \E j \in DOMAIN ord : ord[j] = k
OnePerContents == pstatus = "ok" => /\ Len(objs) = Len(want[1])
                                    /\ \A n \in DOMAIN objs : objs[n].key = JoinRuns(want[1][n].runs)
                                    /\ trunc = (want[2] = "true")
SizeErrorIsError == (pstatus # "run") => ((pstatus = "err") = want[3])
(* List: sorted, filtered, truncated -- all buckets over five keys *)
K(s) == s
Keys == {<<75, 47, 53, 47, 97>>, <<75, 47, 53, 47, 98>>, <<75, 47, 53, 55, 47, 97>>, <<75, 47, 53, 47, 233>>, <<76, 47, 53, 47, 97>>}
Buckets == {{[key |-> k, lm |-> <<1, 2>>, size |-> 1] : k \in S} : S \in SUBSET Keys}
ListOk == \A b \in Buckets : \A mk \in 1..3 :
             LET r == List(b, <<75, 47, 53, 47>>, mk) IN
             /\ \A n \in DOMAIN r.objects : HasPrefix(r.objects[n].key, <<75, 47, 53, 47>>) /\ r.objects[n] \in b
             /\ \A n \in 1..(Len(r.objects) - 1) : LexLess(r.objects[n].key, r.objects[n + 1].key)
             /\ Len(r.objects) = (IF Cardinality(Matching(b, <<75, 47, 53, 47>>)) > mk THEN mk ELSE Cardinality(Matching(b, <<75, 47, 53, 47>>)))
             /\ r.truncated = (Cardinality(Matching(b, <<75, 47, 53, 47>>)) > mk)
ASSUME ListOk
ASSUME FrameInvariance(<<195, 169, 226, 130, 172>>) /\ Cardinality(Frames(<<195, 169, 226, 130, 172>>)) = 16       \* "é€" in UTF-8, every framing
ASSUME GetOutcomeT(200, FALSE) = "err" /\ GetOutcomeT(200, TRUE) = "ok" /\ GetOutcomeT(404, FALSE) = "notfound"
ASSUME LastSegment(<<75, 47, 53, 47, 97, 98>>) = <<97, 98>> /\ LastSegment(<<97>>) = <<97>> /\ LastSegment(<<97, 47>>) = <<>>
ASSUME RealtimePrefix(<<75>>, 57) = <<75, 47, 53, 55, 47>> /\ ArchivePrefix(2024, 5, 1, <<75>>) = <<50, 48, 50, 52, 47, 48, 53, 47, 48, 49, 47, 75>>
=============================================================================
