INIT GInit
NEXT MNext
CONSTANTS
  MaxMsgs = 4
  MaxRecs = 3
  Elevs = {0, 1}
  MaxLen = 0
CHECK_DEADLOCK FALSE
