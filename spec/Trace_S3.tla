----------------------------- MODULE Trace_S3 -----------------------------
(* Mechanism T for S3 (batch).  All strings are code-point sequences.
   {op:"list", api, site, vol|y,m,d, max, keys, lms, ids, idlms, err, panic, req_path, req_prefix, req_max}
        keys/lms = the bucket content (any order); ids/idlms = what the wrapper returned
   {op:"get", api, key, status, out, data_equal, lm_equal, id_equal, panic, req_path, want_path, frame, cut}
        frame = size of the transport frames the body was written in (0 = at once); cut = body bytes sent before the
        connection was closed (-1 = all of them) *)
EXTENDS S3, Json, IOUtils
Rec == ndJsonDeserialize(IOEnv.TRACE)
Batch == 64
VARIABLE l
Bad(sig, i) == PrintT(<<"MISMATCH", sig, i>>)
BucketOf(e) == {[key |-> e.keys[n], lm |-> e.lms[n], size |-> 0] : n \in DOMAIN e.keys}
CheckList(e, i) ==
    LET want == IF e.api = "realtime" THEN RealtimeListing(BucketOf(e), e.site, e.vol, e.max) ELSE ArchiveListing(BucketOf(e), e.y, e.m, e.d, e.site)
        prefix == IF e.api = "realtime" THEN RealtimePrefix(e.site, e.vol) ELSE ArchivePrefix(e.y, e.m, e.d, e.site)
    IN /\ IF e.garbled THEN TRUE
          ELSE IF e.size_bad THEN (IF e.err THEN TRUE ELSE Bad("C17/list/unparsable_size_accepted", i))
          ELSE IF e.err = want.err THEN TRUE ELSE Bad(IF want.err THEN "C17/list/truncated_listing_accepted" ELSE "C17/list/error_on_wellformed", i)
       /\ IF e.garbled \/ e.size_bad \/ e.err \/ want.err \/ e.ids = want.ids THEN TRUE
          ELSE IF Len(e.ids) # Len(want.ids) THEN Bad("C17/list/count", i) ELSE Bad("C17/list/identifiers", i)
       /\ IF e.garbled \/ e.size_bad \/ e.api = "archive" \/ e.err \/ want.err \/ e.ids # want.ids \/ e.idlms = want.lms THEN TRUE ELSE Bad("C17/list/last_modified", i)
       (* the shape of the listing request is the implementation's business as long as the result is right: drift only *)
       /\ IF e.req_prefix = prefix THEN TRUE ELSE PrintT(<<"DRIFT", "C17/list/request_prefix", i>>)
       /\ IF e.api = "archive" \/ e.req_max = e.max THEN TRUE ELSE PrintT(<<"DRIFT", "C17/list/request_max_keys", i>>)
CheckGet(e, i) ==
    /\ IF e.out = GetOutcomeT(e.status, e.cut < 0) THEN TRUE
       ELSE IF e.cut >= 0 /\ e.status = 200 THEN (IF e.out # "ok" \/ e.data_equal THEN TRUE ELSE Bad("C17/get/truncated_transfer_accepted", i))
       ELSE Bad("C17/get/status_mapping", i)
    /\ IF e.status # 200 \/ e.out # "ok" \/ (e.data_equal /\ e.id_equal) THEN TRUE ELSE Bad("C17/get/content", i)
    /\ IF e.status # 200 \/ e.out # "ok" \/ e.lm_equal THEN TRUE ELSE Bad("C17/get/last_modified", i)
    /\ IF e.req_path = e.want_path THEN TRUE ELSE Bad("C17/get/request_key", i)
Check(e, i) == IF e.panic THEN Bad("C17/" \o e.op \o "/panic", i) ELSE IF e.op = "list" THEN CheckList(e, i) ELSE CheckGet(e, i)
TInit == l = 1 /\ PInit(<<>>)
TNext == \/ /\ l <= Len(Rec)
            /\ LET hi == IF l + Batch - 1 < Len(Rec) THEN l + Batch - 1 ELSE Len(Rec) IN (\A i \in l..hi : Check(Rec[i], i)) /\ l' = hi + 1
            /\ UNCHANGED pvars
         \/ /\ l = Len(Rec) + 1 /\ PrintT(<<"TRACE-CONSUMED", Len(Rec)>>) /\ UNCHANGED <<l, pvars>>
TSpec == TInit /\ [][TNext]_<<l, pvars>>
=============================================================================
