------------------------------ MODULE MC_Drd ------------------------------
(* Bounded model: every subset of the ten blocks in canonical order; for every subset of at most
   MaxPerm blocks all file orders x all pointer orders; gaps {0, 3}; gates {0, 1, 3}; words 8/16.
   The decoder machine run on EncodeDrd(m) must end "ok" with exactly Expected(m), standing at
   ReaderEnd(m). *)
EXTENDS Drd, SequencesExt, FiniteSetsExt
CONSTANTS MaxPerm, ExtraSubsets

VARIABLE m
(* families of blocks on which all file orders x pointer orders are enumerated *)
SmallFamilies == SUBSET {"VOL", "REF", "PHI", "SW"}
Canon == <<"VOL", "ELV", "RAD", "REF", "VEL", "SW", "ZDR", "PHI", "RHO", "CFP">>
CanonIdx(p) == CHOOSE k \in 1..10 : Canon[k] = p

GatesFor(k) == <<0, 1, 3, 2, 1, 3, 0>>[(k % 7) + 1]
WordFor(p, k) == IF p \in {"PHI", "CFP"} \/ k % 3 = 0 THEN 16 ELSE 8

(* blocks for a sequence of products in file order, with a gap pattern selector *)
Build(ps, gp) == [k \in 1..Len(ps) |-> MkBlock(ps[k], CanonIdx(ps[k]) + k, GatesFor(k + gp), WordFor(ps[k], k + gp), IF (k + gp) % 2 = 0 THEN 3 ELSE 0)]
Msg(ps, perm, gp) == [hdr |-> MkHeader(Len(ps) + gp, Len(ps)), blocks |-> Build(ps, gp), ptrs |-> perm]

SortedSeq(S) == SetToSortSeq({CanonIdx(p) : p \in S}, <)
CanonSeq(S) == [k \in 1..Cardinality(S) |-> Canon[SortedSeq(S)[k]]]
Ident(n) == [k \in 1..n |-> k]

Perms(n) == {f \in [1..n -> 1..n] : \A a, b \in 1..n : a # b => f[a] # f[b]}

AllCanonical == {Msg(CanonSeq(S), Ident(Cardinality(S)), gp) : S \in SUBSET Products, gp \in {0, 1}}
Small == {S \in SUBSET Products : Cardinality(S) \in 1..MaxPerm}
AllOrders == UNION {{Msg([k \in 1..Cardinality(S) |-> CanonSeq(S)[ord[k]]], perm, gp) :
                        ord \in Perms(Cardinality(S)), perm \in Perms(Cardinality(S)), gp \in {0, 1}} : S \in Small \cap ExtraSubsets}
Messages == AllCanonical \cup AllOrders

MInit == /\ m \in Messages
         /\ DInit(EncodeDrd(m))
MNext == DNext /\ UNCHANGED m
MSpec == MInit /\ [][MNext]_<<dvars, m>> /\ WF_dvars(DNext)

RoundTrip == pc = "done" => /\ status = "ok"
                            /\ hdr = m.hdr
                            /\ prod = Expected(m).prod
                            /\ pos = ReaderEnd(m)
GateLength == \A p \in Moments : ~prod[p].absent =>
                 Len(prod[p].gates) = U16Of(prod[p].rec["number_of_data_moment_gates"]) * (prod[p].rec["data_word_size"][1] \div 8)
=============================================================================
