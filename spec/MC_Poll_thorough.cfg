SPECIFICATION Spec
CONSTANTS
  MaxVol = 3
  LastSeq = 4
  GetBudget = 3
  ListBudget = 3
  MaxFaults = 2
  MaxUploads = 7
VIEW view
INVARIANTS FirstIsNewestAtStart Advancing NoRepeat OnlyUploaded AtMostOneAfterStop OkOnlyAfterStop ErrOnlyWhen ConsumerGone
PROPERTIES CursorAfterSend Termination
CHECK_DEADLOCK FALSE
