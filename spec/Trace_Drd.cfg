SPECIFICATION TSpec
INVARIANTS NeverPanics
CHECK_DEADLOCK FALSE
