SPECIFICATION TSpec
CONSTANT Depth = 1
INVARIANTS Total PosInRange AllocBounded Export
PROPERTY Terminates
CHECK_DEADLOCK FALSE
