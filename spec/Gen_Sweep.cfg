INIT GenInit
NEXT GenNext
CONSTANTS
  Elevs = {0, 1, 255}
  MaxLen = 6
  Azs = {1, 2, 3}
  MaxSide = 3
CHECK_DEADLOCK FALSE
