SPECIFICATION ShortSpec
CONSTANTS
  MaxVol = 3
  LastSeq = 4
  ShortLen = 2
  GetBudget = 2
  ListBudget = 2
  MaxFaults = 0
  MaxUploads = 4
INVARIANT WaitsOnlyForTheUploader
CHECK_DEADLOCK FALSE
