------------------------------ MODULE PollStale ------------------------------
(***************************************************************************)
(* Named scenario outside the listed properties (growth, DESIGN.md 12.7):  *)
(* the environment assumption EnvAheadIsEmpty is dropped.  In a full        *)
(* rotation the directory AHEAD of the newest volume still holds the 55     *)
(* chunks of the volume written there 999 volumes ago.  After an end chunk  *)
(* the poller lists that directory (NextVolumeTakesLatest), finds chunks,   *)
(* takes the latest -- the stale end chunk -- downloads it successfully and *)
(* hands it to the consumer as if it were new data.                        *)
(* TLC exhibits the behaviour as a counterexample to NoStaleDelivered; the  *)
(* C18 thorough tier replays it against the real poll_chunks and records    *)
(* whether the real code does the same (informational, never a verdict:     *)
(* C18's statement assumes volumes appear in rotation order in otherwise    *)
(* empty directories).                                                     *)
(***************************************************************************)
EXTENDS Poll
VARIABLE fresh        \* chunks uploaded in the current rotation (history)
svars2 == <<vars, fresh>>

StaleInit == /\ \E v0 \in 1..MaxVol, s0 \in 1..LastSeq :
                  /\ up = <<v0, s0>>
                  /\ vis = [v \in 1..MaxVol |-> IF v = v0 THEN s0 ELSE IF v = SuccVol(v0) THEN LastSeq ELSE 0]    \* stale volume ahead
                  /\ fresh = {<<v0, s>> : s \in 1..s0}
             /\ uploads = 0 /\ pc = "search" /\ latestVol = 0 /\ target = NoPos /\ att = 0 /\ prev = NoPos
             /\ cons = "alive" /\ stop = "no" /\ faults = 0 /\ result = "running" /\ why = "" /\ hist = <<>> /\ histAtStop = 0 /\ window = {}
(* the uploader overwrites the stale directory when it gets there; nothing clears the one after it *)
StaleUpload == /\ uploads < MaxUploads /\ result = "running" /\ pc # "search"
               /\ LET nx == SuccPos(up) IN
                  /\ vis' = [vis EXCEPT ![nx[1]] = nx[2]]
                  /\ up' = nx /\ fresh' = fresh \cup {nx}
               /\ uploads' = uploads + 1
               /\ UNCHANGED <<pc, latestVol, target, att, prev, cons, stop, faults, result, why, hist, histAtStop, window>>
StaleNext == StaleUpload \/ ((PollerNext \/ CStop \/ CDrop) /\ UNCHANGED fresh)
StaleSpec == StaleInit /\ [][StaleNext]_svars2
NoStaleDelivered == \A j \in DOMAIN hist : hist[j] \in fresh
=============================================================================
