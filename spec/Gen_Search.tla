---- MODULE Gen_Search ----
(* Mechanism G for Search: one REPLAY line per bucket shape with the result, the call count and the
   probe sequence the specification's algorithm produces. *)
EXTENDS Search, Json
Export == pc = "done" => PrintT("REPLAY " \o ToJson([n |-> n, p |-> p, k |-> k, idx |-> result, calls |-> probes, probes |-> hist]))
====
