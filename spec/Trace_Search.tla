--------------------------- MODULE Trace_Search ---------------------------
(* Mechanism T for Search: one event per bucket shape explored by the REAL code
     {n, p, k, res, calls, counted}       rotated search through the guarded wrapper
     {n, p, k, vol, calls, lists, ep:1}   get_latest_volume against the S3 simulator (vol = 0 for none)
   validated in batches against Newest and CallLimit (pure operators of Search.tla). *)
EXTENDS Integers, Sequences, TLC, Json, IOUtils

Rec == ndJsonDeserialize(IOEnv.TRACE)
Batch == 4096

RECURSIVE Log2Ceil(_)
Log2Ceil(x) == IF x <= 1 THEN 0 ELSE 1 + Log2Ceil((x + 1) \div 2)
CallLimit(N) == N + 8 * Log2Ceil(N + 1) + 16

VARIABLE l

Check(e, i) ==
    LET newest == IF e.k = 0 THEN -1 ELSE e.p
        got == IF "ep" \in DOMAIN e THEN e.vol - 1 ELSE e.res
    IN /\ IF got = newest THEN TRUE
          ELSE PrintT(<<"MISMATCH", IF "ep" \in DOMAIN e THEN "C15/get_latest_volume/wrong_volume" ELSE "C15/search/wrong_result", i>>)
       /\ IF e.calls <= CallLimit(e.n) THEN TRUE
          ELSE PrintT(<<"MISMATCH", "C15/search/call_bound", i>>)
       /\ IF e.calls = e.counted THEN TRUE
          ELSE PrintT(<<"MISMATCH", "C15/search/call_count", i>>)

Init == l = 1
Next == \/ /\ l <= Len(Rec)
           /\ LET hi == IF l + Batch - 1 < Len(Rec) THEN l + Batch - 1 ELSE Len(Rec)
              IN /\ \A i \in l..hi : Check(Rec[i], i)
                 /\ l' = hi + 1
        \/ /\ l = Len(Rec) + 1
           /\ PrintT(<<"TRACE-CONSUMED", Len(Rec)>>)
           /\ UNCHANGED l
TSpec == Init /\ [][Next]_l
=============================================================================
