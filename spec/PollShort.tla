------------------------------ MODULE PollShort ------------------------------
(***************************************************************************)
(* Named scenario outside the listed properties (growth, DESIGN.md 12.7):  *)
(* a volume that ENDS BEFORE chunk LastSeq.  The uploader marks the last    *)
(* chunk of every volume with type E, but the number of chunks depends on   *)
(* the coverage pattern; the poller derives "is there a next chunk in this  *)
(* volume" from the sequence number alone (sequence < 55), never from the   *)
(* type letter -- and it also GUESSES the letter of the object it asks for  *)
(* from the sequence number (I below 55, E at 55).  The end chunk of a      *)
(* short volume is stored as ...-0NN-E, the poller asks for ...-0NN-I: it   *)
(* never finds it, exhausts its retry budget and returns                    *)
(* ExpectedChunkNotFound although the uploader moved on to the next volume  *)
(* long ago (reproduced on the real code by `vdrive poll record-hazards`).  *)
(* TLC exhibits this as a counterexample to WaitsOnlyForTheUploader.        *)
(***************************************************************************)
EXTENDS Poll
CONSTANT ShortLen            \* every volume has ShortLen < LastSeq chunks in this scenario
VARIABLES upAtWait           \* uploader position when the poller started waiting for its current target
shvars == <<vars, upAtWait>>

ShortSucc(q) == IF q[2] < ShortLen THEN <<q[1], q[2] + 1>> ELSE <<SuccVol(q[1]), 1>>
ShortInit == /\ \E v0 \in 1..MaxVol, s0 \in 1..ShortLen : InitWith(v0, s0, 0)
             /\ upAtWait = NoPos
ShortUpload == /\ uploads < MaxUploads /\ result = "running" /\ pc # "search"
               /\ LET nx == ShortSucc(up) IN vis' = [vis EXCEPT ![nx[1]] = nx[2], ![SuccVol(nx[1])] = 0] /\ up' = nx
               /\ uploads' = uploads + 1
               /\ UNCHANGED <<pc, latestVol, target, att, prev, cons, stop, faults, result, why, hist, histAtStop, window, upAtWait>>
(* the object asked for exists under the guessed name only below the short volume's end chunk *)
Findable(t) == Visible(t) /\ (t[2] # ShortLen \/ ShortLen = LastSeq)      \* at LastSeq the guessed letter E is right
PGetShort(ok) == /\ pc = "get" /\ result = "running"
                 /\ IF ok THEN Findable(target) /\ pc' = "deliver" /\ UNCHANGED <<att, result, why, faults>>
                    ELSE /\ ~Findable(target) /\ att' = att + 1 /\ UNCHANGED faults
                         /\ IF att + 1 = GetBudget THEN Err("budget") ELSE UNCHANGED <<pc, result, why>>
                 /\ UNCHANGED <<env, latestVol, target, prev, cons, stop, hist, histAtStop, window>>
ShortNext == \/ ShortUpload
             \/ PNext /\ upAtWait' = up
             \/ (PSearch \/ PListLatest \/ PGetLatest(TRUE) \/ PGetLatest(FALSE) \/ PDeliverLatest \/ PGetMeta(TRUE) \/ PGetMeta(FALSE)
                 \/ PLoopTop \/ PListNext \/ PGetShort(TRUE) \/ PGetShort(FALSE) \/ PDeliver \/ CStop \/ CDrop) /\ UNCHANGED upAtWait
ShortSpec == ShortInit /\ [][ShortNext]_shvars
(* giving up for lack of data is only justified when the uploader produced nothing while the poller waited *)
WaitsOnlyForTheUploader == (result = "err" /\ why = "budget") => up = upAtWait
=============================================================================
