--------------------------------- MODULE S3 ---------------------------------
(***************************************************************************)
(* L4 -- S3 listing and download, nexrad-data/src/aws/s3/*.rs and the      *)
(* archive / realtime wrappers.                                            *)
(*                                                                         *)
(* Keys and other inspected strings are sequences of Unicode code points   *)
(* (UTF-8 byte order = code point order, which is S3's listing order).     *)
(* A bucket is a set of objects [key, lm, size]; lm is <<days, ms>>.       *)
(***************************************************************************)
EXTENDS Integers, Sequences, FiniteSets, SequencesExt, TLC

Slash == 47
RECURSIVE LexLess(_, _)
LexLess(a, b) == IF a = <<>> THEN b # <<>>
                 ELSE IF b = <<>> THEN FALSE
                 ELSE IF Head(a) # Head(b) THEN Head(a) < Head(b)
                 ELSE LexLess(Tail(a), Tail(b))
HasPrefix(k, p) == Len(k) >= Len(p) /\ SubSeq(k, 1, Len(p)) = p

(* ListObjectsV2: the objects under the prefix in key order, at most maxKeys, truncated flag *)
Matching(bucket, prefix) == {o \in bucket : HasPrefix(o.key, prefix)}
Sorted(S) == SetToSortSeq(S, LAMBDA a, b : LexLess(a.key, b.key))
List(bucket, prefix, maxKeys) ==
    LET all == Sorted(Matching(bucket, prefix))
    IN [objects |-> IF Len(all) > maxKeys THEN SubSeq(all, 1, maxKeys) ELSE all, truncated |-> Len(all) > maxKeys]

(* final path segment of a key *)
RECURSIVE LastSegment(_)
LastSegment(k) == IF \A j \in DOMAIN k : k[j] # Slash THEN k
                  ELSE LastSegment(SubSeq(k, (CHOOSE j \in DOMAIN k : k[j] = Slash /\ \A x \in 1..(j - 1) : k[x] # Slash) + 1, Len(k)))

(* decimal rendering *)
RECURSIVE Dec(_)
Dec(n) == IF n < 10 THEN <<48 + n>> ELSE Dec(n \div 10) \o <<48 + (n % 10)>>
Pad2(n) == <<48 + (n \div 10), 48 + (n % 10)>>
Pad4(n) == <<48 + (n \div 1000), 48 + ((n \div 100) % 10), 48 + ((n \div 10) % 10), 48 + (n % 10)>>

(* request grammar *)
RealtimeBucket == "unidata-nexrad-level2-chunks"
ArchiveBucket == "noaa-nexrad-level2"
RealtimePrefix(site, vol) == site \o <<Slash>> \o Dec(vol) \o <<Slash>>                          \* SITE/VOLUME/
RealtimeKey(site, vol, name) == RealtimePrefix(site, vol) \o name                                \* SITE/VOLUME/NAME
ArchivePrefix(y, m, d, site) == Pad4(y) \o <<Slash>> \o Pad2(m) \o <<Slash>> \o Pad2(d) \o <<Slash>> \o site     \* YYYY/MM/DD/SITE
ArchiveKey(y, m, d, site, name) == ArchivePrefix(y, m, d, site) \o <<Slash>> \o name              \* YYYY/MM/DD/SITE/NAME

(* what the listing wrappers must return *)
RealtimeListing(bucket, site, vol, maxKeys) ==
    LET r == List(bucket, RealtimePrefix(site, vol), maxKeys)
    IN [ids |-> [n \in DOMAIN r.objects |-> LastSegment(r.objects[n].key)], lms |-> [n \in DOMAIN r.objects |-> r.objects[n].lm], err |-> FALSE]
ArchiveListing(bucket, y, m, d, site) ==
    LET r == List(bucket, ArchivePrefix(y, m, d, site), 1000)
    IN IF r.truncated THEN [ids |-> <<>>, lms |-> <<>>, err |-> TRUE]
       ELSE [ids |-> [n \in DOMAIN r.objects |-> LastSegment(r.objects[n].key)], lms |-> [n \in DOMAIN r.objects |-> r.objects[n].lm], err |-> FALSE]

(* download: response class by HTTP status *)
GetOutcome(status) == IF status = 200 THEN "ok" ELSE IF status = 404 THEN "notfound" ELSE "err"

(* transport.  A response body arrives as a sequence of frames; Frames(b) is every way of cutting the byte (or
   code-unit) sequence b into non-empty pieces.  What a listing or a download returns is a function of the
   concatenation only (FrameInvariance: the wrappers above take the body, not its framing) -- in particular a
   multi-byte character of a key may straddle a frame boundary.  A body whose connection closes before the
   announced length has arrived is a failed transfer: the download is an error, never an Ok with other bytes.  The length
   may also not be announced at all (Transfer-Encoding: chunked): the body is then the concatenation of the chunks -- the
   same Concat, one level down -- and the result must be the same as with a Content-Length. *)
RECURSIVE Frames(_)
Frames(b) == IF b = <<>> THEN {<<>>} ELSE UNION {{<<SubSeq(b, 1, n)>> \o f : f \in Frames(SubSeq(b, n + 1, Len(b)))} : n \in 1..Len(b)}
RECURSIVE Concat(_)
Concat(fs) == IF fs = <<>> THEN <<>> ELSE Head(fs) \o Concat(Tail(fs))
FrameInvariance(b) == \A f \in Frames(b) : Concat(f) = b
GetOutcomeT(status, complete) == IF status = 200 /\ ~complete THEN "err" ELSE GetOutcome(status)

-----------------------------------------------------------------------------
(* the listing-response parser as the event machine the code is.  An XML event is
   <<"S", name>> | <<"C", text>> | <<"E", name>>; text is a TLA+ string here. *)
VARIABLES evs, ei, obj, field, objs, trunc, pstatus
pvars == <<evs, ei, obj, field, objs, trunc, pstatus>>
NoObj == [none |-> TRUE]
PInit(events) == evs = events /\ ei = 1 /\ obj = NoObj /\ field = "none" /\ objs = <<>> /\ trunc = FALSE /\ pstatus = "run"

IsNumber(t) == t \in {"0", "5", "12", "18446744073709551615"}           \* the size texts of the bounded model
PStep == /\ pstatus = "run" /\ ei <= Len(evs)
         /\ LET e == evs[ei] IN
            CASE e[1] = "S" ->
                   /\ field' = IF e[2] \in {"IsTruncated", "Key", "LastModified", "Size"} THEN e[2]
                               ELSE IF e[2] = "Contents" THEN field ELSE "none"
                   /\ obj' = IF e[2] = "Contents" THEN [key |-> "", lm |-> "", size |-> "0"] ELSE obj
                   /\ UNCHANGED <<objs, trunc, pstatus>>
              [] e[1] = "C" ->
                   IF field = "none" THEN UNCHANGED <<obj, field, objs, trunc, pstatus>>
                   ELSE IF field = "IsTruncated" THEN trunc' = (e[2] = "true") /\ UNCHANGED <<obj, field, objs, pstatus>>
                   ELSE IF obj = NoObj THEN pstatus' = "err" /\ UNCHANGED <<obj, field, objs, trunc>>
                   ELSE IF field = "Key" THEN obj' = [obj EXCEPT !.key = obj.key \o e[2]] /\ UNCHANGED <<field, objs, trunc, pstatus>>
                   ELSE IF field = "LastModified" THEN obj' = [obj EXCEPT !.lm = e[2]] /\ UNCHANGED <<field, objs, trunc, pstatus>>
                   ELSE IF IsNumber(e[2]) THEN obj' = [obj EXCEPT !.size = e[2]] /\ UNCHANGED <<field, objs, trunc, pstatus>>
                   ELSE pstatus' = "err" /\ UNCHANGED <<obj, field, objs, trunc>>
              [] OTHER ->
                   /\ IF e[2] = "Contents" /\ obj # NoObj THEN objs' = Append(objs, obj) /\ obj' = NoObj ELSE UNCHANGED <<objs, obj>>
                   /\ UNCHANGED <<field, trunc, pstatus>>
         /\ ei' = ei + 1 /\ UNCHANGED evs
PDone == pstatus = "run" /\ ei > Len(evs) /\ pstatus' = "ok" /\ UNCHANGED <<evs, ei, obj, field, objs, trunc>>
PNext == PStep \/ PDone
PTerminates == <>(pstatus # "run")
=============================================================================
