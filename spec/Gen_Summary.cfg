INIT GInit
NEXT SNext
CONSTANT MaxLen = 4
CHECK_DEADLOCK FALSE
