INIT GInit
NEXT MNext
CONSTANTS
  MaxPerm = 0
  ExtraSubsets <- SmallFamilies
CHECK_DEADLOCK FALSE
