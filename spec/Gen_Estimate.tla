---- MODULE Gen_Estimate ----
(* Mechanism G: every cut list up to MaxCuts x every sequence: expected cut index and, with an empty
   history, the expected estimate offset. *)
EXTENDS MC_Estimate, Json, IOUtils, SequencesExt
Vec(cuts, s) == [cuts |-> cuts, seq |-> s, cut |-> CutOf(cuts, s), est |-> EstimateMs(s, cuts, <<>>)]
ASSUME ndJsonSerialize(IOEnv.OUT, SetToSeq({Vec(c, s) : c \in CutLists, s \in 0..(2 + 6 * MaxCuts)}))
====
