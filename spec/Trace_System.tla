--------------------------- MODULE Trace_System ---------------------------
(* Mechanism T for the composition: a real polling session in which every chunk carries real LDM
   records of real type-31 messages, and the consumer decodes each delivered chunk with the public
   API (Chunk -> File/Record -> decompress -> messages -> into_radial) and scans every volume it
   received completely (File::scan on the concatenated chunks).  Events as in Trace_Poll plus
     init    {vol, seq, chunks: [[rads]...]}    radials of the chunks already in the start volume
     upload  {vol, seq, rads: [[el, id]...]}     what the uploader put into the chunk
     deliver {vol, seq, decoded: [[el, id]...]}  what the consumer decoded from it
     scan    {vol, vcp, sweeps: [{el, ids}]}     the scan of a completely received volume *)
EXTENDS System, Json, IOUtils
Rec == ndJsonDeserialize(IOEnv.TRACE)
VARIABLE l
tvars == <<allv, l>>
ASSUME TLCSet(7, 0)
Is(e) == l <= Len(Rec) /\ Rec[l].ev = e
Adv == l' = l + 1
ToRads(a) == [k \in DOMAIN a |-> [el |-> a[k][1], id |-> a[k][2]]]
RECURSIVE CountR(_, _)
CountR(chunks, k) == IF k = 0 THEN 0 ELSE CountR(chunks, k - 1) + Len(chunks[k])

TInit == /\ Rec[1].ev = "init" /\ l = 2
         /\ InitWith(Rec[1].vol, Rec[1].seq, 0)
         /\ serialOf = [v \in 1..MaxVol |-> IF v = Rec[1].vol THEN 1 ELSE 0]
         /\ content = [key \in {<<Rec[1].vol, k, 1>> : k \in 1..Rec[1].seq} |-> ToRads(Rec[1].chunks[key[2]])]
         /\ nextId = 1 + CountR(Rec[1].chunks, Rec[1].seq)
         /\ got = <<>> /\ expect = <<>> /\ scans = <<>>

EvProbe == Is("probe") /\ pc = "search" /\ Adv /\ UNCHANGED allv
EvUpload == Is("upload") /\ SUploadWith(ToRads(Rec[l].rads)) /\ up' = <<Rec[l].vol, Rec[l].seq>> /\ Adv
EvStop == Is("stop") /\ CStop /\ Adv /\ UNCHANGED svars
EvDrop == Is("drop") /\ CDrop /\ Adv /\ UNCHANGED svars
EvList == /\ Is("list") /\ Adv /\ UNCHANGED svars
          /\ \/ pc = "listLatest" /\ PListLatest /\ Rec[l].vol = latestVol /\ Rec[l].n = vis[latestVol]
             \/ pc = "listNext" /\ PListNext /\ Rec[l].vol = SuccVol(prev[1]) /\ Rec[l].n = vis[SuccVol(prev[1])]
EvGet == /\ Is("get") /\ Adv /\ UNCHANGED svars
         /\ LET ok == Rec[l].status = 200
                key == <<Rec[l].vol, Rec[l].seq>>
            IN \/ pc = "getLatest" /\ key = target /\ PGetLatest(ok)
               \/ pc = "getMeta" /\ key = <<prev[1], 1>> /\ PGetMeta(ok)
               \/ pc = "get" /\ key = target /\ PGet(ok)
(* the decoded radials must be exactly what the uploader put into that chunk *)
EvDeliver == /\ Is("deliver") /\ Adv
             /\ SDeliver
             /\ hist'[Len(hist')] = <<Rec[l].vol, Rec[l].seq>>
             /\ ToRads(Rec[l].decoded) = content[<<Rec[l].vol, Rec[l].seq, serialOf[Rec[l].vol]>>]
EvScan == /\ Is("scan") /\ Adv
          /\ scans # <<>> /\ scans[Len(scans)].vol = Rec[l].vol
          /\ scans[Len(scans)].sweeps = [g \in DOMAIN Rec[l].sweeps |-> [el |-> Rec[l].sweeps[g].el, ids |-> Rec[l].sweeps[g].ids]]
          /\ UNCHANGED allv
EvStat == Is("stat") /\ Adv /\ UNCHANGED allv
EvReturn == /\ Is("return") /\ result # "running" /\ (Rec[l].ok <=> result = "ok") /\ Adv /\ UNCHANGED allv
Silent == (PLoopTop \/ PNext \/ (PSearch /\ ~Is("probe"))) /\ UNCHANGED <<l, svars>>
SilentSendFail == cons = "dropped" /\ SFailedSend /\ UNCHANGED l

TNext == EvStat \/ EvProbe \/ EvUpload \/ EvStop \/ EvDrop \/ EvList \/ EvGet \/ EvDeliver \/ EvScan \/ EvReturn \/ Silent \/ SilentSendFail
TSpec == TInit /\ [][TNext]_tvars
Track == IF l > TLCGet(7) THEN TLCSet(7, l) ELSE TRUE
Accept == IF TLCGet(7) = Len(Rec) + 1 THEN PrintT(<<"TRACE-CONSUMED", Len(Rec)>>)
          ELSE PrintT(<<"MISMATCH", "SYS/" \o Rec[TLCGet(7)].ev, TLCGet(7)>>)
=============================================================================
