INIT GInit
NEXT SNext
CONSTANT MaxLen = 5
CHECK_DEADLOCK FALSE
