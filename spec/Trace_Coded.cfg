SPECIFICATION TSpec
CHECK_DEADLOCK FALSE
