---- MODULE MC_Search999 ----
(* The search machine at the PRODUCTION size N = 999 on a slice of the shape space that TLC can hold:
   newest index in PSet (63 positions incl. both ends and the middle) x every populated count 0..999 (63,000 shapes, ~1,000 probes for
   the sparse ones).  The full 999,000-shape space is covered by the real code + Trace_Search. *)
EXTENDS Search
CONSTANT Slice      \* TRUE: 63 newest positions (quick); FALSE: all 999 (thorough: 999,000 shapes, 19.7 M states)
PSet == IF Slice THEN {q \in 0..998 : q % 37 \in {0, 1}} \cup (497..501) \cup (995..998) ELSE 0..998
Init999 == /\ n = 999 /\ p \in PSet /\ k \in 0..999
           /\ pc = "first" /\ first = NONE /\ low = 0 /\ high = 0
           /\ nearest = NoIdx /\ nearestVal = NONE /\ queue = <<>> /\ probes = 0 /\ result = NoIdx /\ hist = <<>>
Spec999 == Init999 /\ [][Next]_vars
====
