-------------------------------- MODULE Vcp --------------------------------
(***************************************************************************)
(* L1 -- Volume Coverage Pattern (message type 5),                         *)
(* nexrad-decode/src/messages/volume_coverage_pattern*.                    *)
(* Layout: Icd!VcpHeaderL (11 halfwords) then number_of_elevation_cuts x   *)
(* Icd!VcpCutL (23 halfwords).  Scaled values are exact rationals: an      *)
(* accessor's value is reported as value x Den(accessor), an integer.      *)
(***************************************************************************)
EXTENDS Icd, Bitwise, TLC

Pow2(n) == 2 ^ n
Bits(raw, lo, n) == (raw \div Pow2(lo)) % Pow2(n)
Bit(raw, b) == Bits(raw, b, 1)

(* ICD table III-A: angle = (raw >> 3) x 180/4096 degrees; reported x 4096 *)
AngleX4096(raw) == (raw \div 8) * 180
(* ICD table XI-D: rate = ((raw >> 3) & 0xFFF) x 22.5/2048 deg/s, negated when bit 15 is set; reported x 4096 *)
AzRateX4096(raw) == (IF Bit(raw, 15) = 1 THEN -1 ELSE 1) * (Bits(raw, 3, 12) * 45)
(* thresholds: signed halfword / 8 dB; reported x 8 *)
ThresholdX8(raw) == IF raw >= 32768 THEN raw - 65536 ELSE raw

(* accessor -> <<field, low bit, width>>; a width-1 accessor is a flag *)
HeaderBits == [
  vcp_sequencing_number_of_elevations |-> <<"vcp_sequencing", 0, 5>>,
  vcp_sequencing_maximum_sails_cuts |-> <<"vcp_sequencing", 5, 2>>,
  vcp_sequencing_sequence_active |-> <<"vcp_sequencing", 13, 1>>,
  vcp_sequencing_truncated_vcp |-> <<"vcp_sequencing", 14, 1>>,
  vcp_supplemental_data_sails_vcp |-> <<"vcp_supplemental_data", 0, 1>>,
  vcp_supplemental_data_number_sails_cuts |-> <<"vcp_supplemental_data", 1, 3>>,
  vcp_supplemental_data_mrle_vcp |-> <<"vcp_supplemental_data", 4, 1>>,
  vcp_supplemental_data_number_mrle_cuts |-> <<"vcp_supplemental_data", 5, 3>>,
  vcp_supplemental_data_mpda_vcp |-> <<"vcp_supplemental_data", 11, 1>>,
  vcp_supplemental_data_base_tilt_vcp |-> <<"vcp_supplemental_data", 12, 1>>,
  vcp_supplemental_data_base_tilts |-> <<"vcp_supplemental_data", 13, 3>>]
CutBits == [
  super_resolution_control_half_degree_azimuth |-> <<"super_resolution_control", 0, 1>>,
  super_resolution_control_quarter_km_reflectivity |-> <<"super_resolution_control", 1, 1>>,
  super_resolution_control_doppler_to_300km |-> <<"super_resolution_control", 2, 1>>,
  super_resolution_control_dual_polarization_to_300km |-> <<"super_resolution_control", 3, 1>>,
  supplemental_data_sails_cut |-> <<"supplemental_data", 0, 1>>,
  supplemental_data_sails_sequence_number |-> <<"supplemental_data", 1, 3>>,
  supplemental_data_mrle_cut |-> <<"supplemental_data", 4, 1>>,
  supplemental_data_mrle_sequence_number |-> <<"supplemental_data", 5, 3>>,
  supplemental_data_mpda_cut |-> <<"supplemental_data", 9, 1>>,
  supplemental_data_base_tilt_cut |-> <<"supplemental_data", 10, 1>>]
AngleAcc == {"elevation_angle", "sector_1_edge_angle", "sector_2_edge_angle", "sector_3_edge_angle", "ebc_angle"}
ThresholdAcc == {"reflectivity_threshold", "velocity_threshold", "spectrum_width_threshold", "differential_reflectivity_threshold",
                 "differential_phase_threshold", "correlation_coefficient_threshold"}

(* coded byte fields -> meaning *)
ChannelName(c) == IF c = 0 THEN "ConstantPhase" ELSE IF c = 1 THEN "RandomPhase" ELSE IF c = 2 THEN "SZ2Phase" ELSE "UnknownPhase"
WaveformName(c) == IF c = 1 THEN "CS" ELSE IF c = 2 THEN "CDW" ELSE IF c = 3 THEN "CDWO" ELSE IF c = 4 THEN "B" ELSE IF c = 5 THEN "SPP" ELSE "Unknown"
PulseWidthName(c) == IF c = 2 THEN "Short" ELSE IF c = 4 THEN "Long" ELSE "Unknown"
PatternTypeName(c) == IF c = 2 THEN "Constant" ELSE "Unknown"
DopplerX2(c) == IF c = 2 THEN 1 ELSE IF c = 4 THEN 2 ELSE -1          \* m/s x 2; -1 = none

(* what an accessor must return for a raw field value *)
Expected(acc, raw) ==
    IF acc \in DOMAIN HeaderBits THEN Bits(raw, HeaderBits[acc][2], HeaderBits[acc][3])
    ELSE IF acc \in DOMAIN CutBits THEN Bits(raw, CutBits[acc][2], CutBits[acc][3])
    ELSE IF acc \in AngleAcc THEN AngleX4096(raw)
    ELSE IF acc = "azimuth_rate" THEN AzRateX4096(raw)
    ELSE IF acc \in ThresholdAcc THEN ThresholdX8(raw)
    ELSE IF acc = "doppler_velocity_resolution" THEN DopplerX2(raw)
    ELSE -999

(* documented bit ranges of one word do not overlap *)
Disjoint(tbl) == \A a, b \in DOMAIN tbl : (a # b /\ tbl[a][1] = tbl[b][1]) =>
                    (tbl[a][2] + tbl[a][3] <= tbl[b][2] \/ tbl[b][2] + tbl[b][3] <= tbl[a][2])
ASSUME Disjoint(HeaderBits) /\ Disjoint(CutBits)
ASSUME \A acc \in DOMAIN HeaderBits : HeaderBits[acc][1] \in Names(VcpHeaderL)
ASSUME \A acc \in DOMAIN CutBits : CutBits[acc][1] \in Names(VcpCutL)
ASSUME AngleAcc \cup ThresholdAcc \subseteq Names(VcpCutL)

-----------------------------------------------------------------------------
(* the count-driven decoder over an input of `avail` bytes *)
MaxCutsInFrame == (FrameSize - SizeOf(MsgHeaderL) - SizeOf(VcpHeaderL)) \div SizeOf(VcpCutL)      \* = 51

VARIABLES avail, declared, pos, got, pc, status
vvars == <<avail, declared, pos, got, pc, status>>
VInit(a, n) == avail = a /\ declared = n /\ pos = 0 /\ got = 0 /\ pc = "header" /\ status = "run"
ReadHeader == /\ pc = "header"
              /\ IF avail >= SizeOf(VcpHeaderL) THEN pos' = SizeOf(VcpHeaderL) /\ pc' = "cuts" /\ UNCHANGED status
                 ELSE status' = "err" /\ pc' = "done" /\ UNCHANGED pos
              /\ UNCHANGED <<avail, declared, got>>
ReadCut == /\ pc = "cuts"
           /\ IF got = declared THEN status' = "ok" /\ pc' = "done" /\ UNCHANGED <<pos, got>>
              ELSE IF avail - pos >= SizeOf(VcpCutL) THEN pos' = pos + SizeOf(VcpCutL) /\ got' = got + 1 /\ UNCHANGED <<pc, status>>
              ELSE status' = "err" /\ pc' = "done" /\ UNCHANGED <<pos, got>>
           /\ UNCHANGED <<avail, declared>>
VNext == ReadHeader \/ ReadCut
Outcome(a, n) == IF a >= SizeOf(VcpHeaderL) + n * SizeOf(VcpCutL) THEN "ok" ELSE "err"
ExactlyDeclared == pc = "done" => /\ status = Outcome(avail, declared)
                                  /\ (status = "ok" => got = declared /\ pos = SizeOf(VcpHeaderL) + declared * SizeOf(VcpCutL))
=============================================================================
