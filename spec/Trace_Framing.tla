-------------------------- MODULE Trace_Framing --------------------------
(* Mechanism T for Framing: one event per decode_messages call of the real code on a driver-built
   stream:  {syms, avail, out, n, tags, same}   (tags = sequence numbers of the returned messages,
   same = every returned message equals its stand-alone decode).  Framing!FNext runs on (syms, avail)
   as silent steps; at "done" the outcome is compared. *)
EXTENDS Framing, Json, IOUtils
Rec == ndJsonDeserialize(IOEnv.TRACE)
VARIABLES l, loaded
tvars == <<fvars, l, loaded>>
Bad(sig) == PrintT(<<"MISMATCH", sig, l>>)

TInit == l = 1 /\ loaded = FALSE /\ stream = <<>> /\ avail = 0 /\ pos = 0 /\ out = <<>> /\ pc = "done" /\ status = "ok"
Load == /\ ~loaded /\ l <= Len(Rec)
        /\ stream' = Rec[l].syms /\ avail' = Rec[l].avail /\ pos' = 0 /\ out' = <<>> /\ pc' = "hdr" /\ status' = "run"
        /\ loaded' = TRUE /\ UNCHANGED l
Silent == loaded /\ FNext /\ UNCHANGED <<l, loaded>>
Compare == /\ loaded /\ pc = "done"
           /\ LET e == Rec[l] IN
              IF e.out = "panic" THEN Bad("C03/stream/panic")
              ELSE IF status = "err" /\ e.out = "ok" THEN Bad("C03/truncation/silent_shortening")
              ELSE IF status = "ok" /\ e.out = "err" THEN Bad("C03/stream/error_on_wellformed")
              ELSE IF status = "ok" /\ e.n # Len(out) THEN Bad("C03/stream/count")
              ELSE IF status = "ok" /\ e.tags # out THEN Bad("C03/stream/order")
              ELSE IF status = "ok" /\ ~e.same THEN Bad("C03/stream/content")
              ELSE TRUE
           /\ loaded' = FALSE /\ l' = l + 1 /\ UNCHANGED fvars
Consumed == /\ ~loaded /\ l = Len(Rec) + 1 /\ PrintT(<<"TRACE-CONSUMED", Len(Rec)>>) /\ UNCHANGED tvars
TNext == Load \/ Silent \/ Compare \/ Consumed
TSpec == TInit /\ [][TNext]_tvars
=============================================================================
