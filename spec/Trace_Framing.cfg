SPECIFICATION TSpec
INVARIANT Variant
CHECK_DEADLOCK FALSE
