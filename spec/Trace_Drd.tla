---------------------------- MODULE Trace_Drd ----------------------------
(* Mechanism T for Drd: each event is one call of the real decode_digital_radar_data on a
   well-formed message the driver laid out:  {bytes, out, hdr, prod, end}.
   The specification's decoder machine (Drd!DNext) is run on the logged BYTES as silent steps; when
   it is done its header/products are compared with what the code returned. *)
EXTENDS Drd, Json, IOUtils

Rec == ndJsonDeserialize(IOEnv.TRACE)
VARIABLES l, loaded
tvars == <<dvars, l, loaded>>

Bad(sig) == PrintT(<<"MISMATCH", sig, l>>)

TInit == /\ l = 1 /\ loaded = FALSE
         /\ bytes = <<>> /\ pos = 0 /\ pc = "done" /\ hdr = NoHdr /\ ptrs = <<>> /\ pi = 1
         /\ prod = [p \in Products |-> Absent] /\ status = "ok"

Load == /\ ~loaded /\ l <= Len(Rec)
        /\ DReset(Rec[l].bytes)
        /\ loaded' = TRUE /\ UNCHANGED l

Silent == loaded /\ DNext /\ UNCHANGED <<l, loaded>>

Compare == /\ loaded /\ pc = "done"
           /\ LET e == Rec[l] IN
              IF status # "ok" THEN Bad("TOOL/spec_rejects_driver_message")
              ELSE IF e.out = "panic" THEN Bad("C02/decode/panic")
              ELSE IF e.out # "ok" THEN Bad("C02/decode/error_on_wellformed")
              ELSE /\ IF hdr = e.hdr THEN TRUE ELSE Bad("C02/header")
                   /\ \A p \in Products :
                        IF prod[p] = e.prod[p] THEN TRUE
                        ELSE IF prod[p].absent # e.prod[p].absent THEN Bad("C02/block/" \o p \o "/presence")
                        ELSE IF prod[p].gates # e.prod[p].gates THEN Bad("C02/block/" \o p \o "/gates")
                        ELSE Bad("C02/block/" \o p \o "/fields")
           /\ loaded' = FALSE /\ l' = l + 1 /\ UNCHANGED dvars

Consumed == /\ ~loaded /\ l = Len(Rec) + 1 /\ PrintT(<<"TRACE-CONSUMED", Len(Rec)>>) /\ UNCHANGED tvars

TNext == Load \/ Silent \/ Compare \/ Consumed
TSpec == TInit /\ [][TNext]_tvars
=============================================================================
