---- MODULE MC_ChunkId ----
EXTENDS ChunkId, TLC
ASSUME Injective
ASSUME SuccPos(MaxVol, LastSeq) = <<1, 1>>
(* grammar round trip on a few hand-made code-point strings *)
ASSUME Split(<<49, 45, 50, 51, 45>>) = <<<<49>>, <<50, 51>>, <<>>>>
ASSUME SeqClass(<<50, 48, 45, 49, 45, 48, 53, 53, 45, 69>>) = "yes" /\ SeqValue(<<50, 48, 45, 49, 45, 48, 53, 53, 45, 69>>) = 55
ASSUME ByteSlice(<<75, 233, 77, 88, 50>>, 0, 2) = NoSlice /\ ByteSlice(<<75, 233, 77, 88, 50>>, 0, 4) = <<75, 233, 77>> /\ ByteSlice(<<75, 233>>, 0, 4) = NoSlice
====
