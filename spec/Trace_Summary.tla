-------------------------- MODULE Trace_Summary --------------------------
(* Mechanism T for Summary: one event per summarize::messages call on a decoded driver-built list:
     {msgs, groups, earliest, latest, vcps, extras_ok, panic}
   Summary!SNext runs on msgs as silent steps; at "done" the code's summary is compared. *)
EXTENDS Summary, Json, IOUtils
Rec == ndJsonDeserialize(IOEnv.TRACE)
VARIABLES l, loaded
tvars == <<svars, l, loaded>>
Bad(sig) == PrintT(<<"MISMATCH", sig, l>>)
ToMsg(j) == [k |-> j.k, ty |-> j.ty, el |-> j.el, vcp |-> j.vcp, tm |-> j.tm, ps |-> {j.ps[x] : x \in DOMAIN j.ps}]
Proj(g) == [ty |-> g.ty, el |-> g.el, first |-> g.first, last |-> g.last, count |-> g.count, st |-> g.st, et |-> g.et, cont |-> g.cont, dts |-> g.dts]
TInit == l = 1 /\ loaded = FALSE /\ msgs = <<>> /\ i = 1 /\ cur = NoGroup /\ groups = <<>> /\ earliest = None /\ latest = None /\ vcps = {} /\ pc = "done"
Load == ~loaded /\ l <= Len(Rec) /\ SReset([j \in DOMAIN Rec[l].msgs |-> ToMsg(Rec[l].msgs[j])]) /\ loaded' = TRUE /\ UNCHANGED l
Silent == loaded /\ SNext /\ UNCHANGED <<l, loaded>>
Compare == /\ loaded /\ pc = "done"
           /\ LET e == Rec[l]
                  want == [g \in DOMAIN groups |-> Proj(groups[g])]
              IN IF e.panic THEN Bad("C14/panic")
                 ELSE /\ IF e.groups = want THEN TRUE
                         ELSE IF Len(e.groups) # Len(want) THEN Bad("C14/groups/count")
                         ELSE IF \E g \in DOMAIN want : e.groups[g].first # want[g].first \/ e.groups[g].last # want[g].last \/ e.groups[g].count # want[g].count THEN Bad("C14/groups/tiling")
                         ELSE IF \E g \in DOMAIN want : e.groups[g].cont # want[g].cont THEN Bad("C14/groups/continued")
                         ELSE IF \E g \in DOMAIN want : e.groups[g].dts # want[g].dts THEN Bad("C14/groups/data_types")
                         ELSE IF \E g \in DOMAIN want : e.groups[g].st # want[g].st \/ e.groups[g].et # want[g].et THEN Bad("C14/groups/times")
                         ELSE Bad("C14/groups/fields")
                      /\ IF e.earliest = earliest /\ e.latest = latest THEN TRUE ELSE Bad("C14/time_range")
                      /\ IF {e.vcps[x] : x \in DOMAIN e.vcps} = vcps THEN TRUE ELSE Bad("C14/vcp_set")
                      /\ IF e.extras_ok THEN TRUE ELSE Bad("C14/groups/member_fields")
           /\ loaded' = FALSE /\ l' = l + 1 /\ UNCHANGED svars
Consumed == ~loaded /\ l = Len(Rec) + 1 /\ PrintT(<<"TRACE-CONSUMED", Len(Rec)>>) /\ UNCHANGED tvars
TNext == Load \/ Silent \/ Compare \/ Consumed
TSpec == TInit /\ [][TNext]_tvars
=============================================================================
