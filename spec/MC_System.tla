---- MODULE MC_System ----
EXTENDS System
sview == <<view, got, scans, nextId, serialOf>>
====
