INIT GInit
NEXT FNext
CONSTANT MaxMsgs = 3
CHECK_DEADLOCK FALSE
