SPECIFICATION Spec
INVARIANT Regimes
CHECK_DEADLOCK FALSE
