--------------------------- MODULE Trace_Content ---------------------------
(* The payload clause of C18 / the EndToEnd invariant of System.tla on its own, independent of the poller's request
   structure and delivery schedule: in a recorded composition session every delivered chunk must DECODE (public
   API: Chunk -> records -> decompress -> messages -> radials) to exactly the radials the uploader published in
   that object -- the newest upload of that (volume, sequence) before the delivery.
   Used when Trace_System rejects a session for a reason that may be implementation shape (the delivery order is
   then judged by the property reading of Trace_Poll, the content by this module). *)
EXTENDS Integers, Sequences, TLC, Json, IOUtils
Rec == ndJsonDeserialize(IOEnv.TRACE)
VARIABLES l, pub
Key(v, s) == v * 100 + s
InitPub == [k \in {Key(Rec[1].vol, s) : s \in 1..Rec[1].seq} |-> Rec[1].chunks[k - Rec[1].vol * 100]]
TInit == Rec[1].ev = "init" /\ l = 2 /\ pub = InitPub
Step == /\ l <= Len(Rec)
        /\ LET e == Rec[l] IN
           /\ IF e.ev = "upload" THEN pub' = (Key(e.vol, e.seq) :> e.rads) @@ pub ELSE UNCHANGED pub
           /\ IF e.ev = "deliver" /\ "decoded" \in DOMAIN e
                THEN IF Key(e.vol, e.seq) \in DOMAIN pub /\ pub[Key(e.vol, e.seq)] = e.decoded THEN TRUE
                     ELSE PrintT(<<"MISMATCH", "SYS/content", l>>)
                ELSE TRUE
        /\ l' = l + 1
Done == l = Len(Rec) + 1 /\ PrintT(<<"TRACE-CONSUMED", Len(Rec)>>) /\ UNCHANGED <<l, pub>>
TSpec == TInit /\ [][Step \/ Done]_<<l, pub>>
=============================================================================
