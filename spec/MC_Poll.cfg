SPECIFICATION Spec
CONSTANTS
  MaxVol = 3
  LastSeq = 3
  GetBudget = 2
  ListBudget = 2
  MaxFaults = 1
  MaxUploads = 5
VIEW view
INVARIANTS FirstIsNewestAtStart Advancing NoRepeat OnlyUploaded AtMostOneAfterStop OkOnlyAfterStop ErrOnlyWhen ConsumerGone
PROPERTIES CursorAfterSend Termination
CHECK_DEADLOCK FALSE
