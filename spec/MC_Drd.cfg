SPECIFICATION MSpec
CONSTANTS
  MaxPerm = 3
  ExtraSubsets <- SmallFamilies
INVARIANTS NeverPanics PosInRange RoundTrip GateLength
PROPERTY Terminates
CHECK_DEADLOCK FALSE
