SPECIFICATION MSpec
CONSTANT MaxMsgs = 3
INVARIANTS Aligned Variant MachineEqualsDeclaration NoSilentShortening
PROPERTY Terminates
CHECK_DEADLOCK FALSE
