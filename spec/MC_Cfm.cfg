SPECIFICATION MSpec
CONSTANT NAz = 2
INVARIANTS RoundTrip TruncationIsError NeverPanics
PROPERTY Terminates
CHECK_DEADLOCK FALSE
