---- MODULE MC_Vcp ----
EXTENDS Vcp
Body == FrameSize - SizeOf(MsgHeaderL)
MInit == \E n \in {0, 1, 2, 50, 51, 52, 53, 100} : \E a \in {0, 21, 22, 23, 22 + 46 * n - 1, 22 + 46 * n, Body} : a >= 0 /\ VInit(a, n)
MSpec == MInit /\ [][VNext]_vvars /\ WF_vvars(VNext)
FrameLimit == (pc = "done" /\ avail = Body) => (status = "ok" <=> declared <= MaxCutsInFrame)
ASSUME MaxCutsInFrame = 51
(* spot values of the scaling rules *)
ASSUME AngleX4096(65528) = 8191 * 180 /\ AngleX4096(7) = 0 /\ AngleX4096(8) = 180
ASSUME AzRateX4096(32768 + 8) = -45 /\ AzRateX4096(32767) = 4095 * 45 /\ AzRateX4096(7) = 0
ASSUME ThresholdX8(65535) = -1 /\ ThresholdX8(32768) = -32768 /\ ThresholdX8(32767) = 32767
Terminates == <>(pc = "done")
====
