-------------------------- MODULE Trace_DateTime --------------------------
(* Mechanism T for DateTime: every date-time accessor of both crates on (d, t):
     {acc, unit, d, t, inrange, panic, none, days, ms, y, mo, da, h, mi, s, ms3, subms}
   unit = "ms" | "min"; days/ms and the civil fields come from chrono's getters on the returned
   value.  In range (d in 1..65535, t below 24 h) the instant must be exactly
   1970-01-01 + (d-1) days + t; out of range only "returns without panicking" is required. *)
EXTENDS DateTime, TLC, Json, IOUtils
Rec == ndJsonDeserialize(IOEnv.TRACE)
Batch == 4096
VARIABLE l
Bad(sig, i) == PrintT(<<"MISMATCH", sig, i>>)
Check(e, i) ==
    IF e.panic THEN Bad("C08/" \o e.acc \o "/panic", i)
    ELSE IF ~e.inrange THEN TRUE
    ELSE LET want == IF e.unit = "ms" THEN Instant(e.d, e.t) ELSE InstantMin(e.d, e.t)
             civ == CivilFromDays(e.d - 1)
             tod == TimeOfDay(want[2])
         IN /\ IF ~e.none /\ <<e.days, e.ms>> = want /\ e.subms = 0 THEN TRUE ELSE Bad("C08/" \o e.acc \o "/instant", i)      \* exact: no stray nanoseconds below the millisecond
            /\ IF e.none \/ (<<e.y, e.mo, e.da>> = civ /\ <<e.h, e.mi, e.s, e.ms3>> = tod) THEN TRUE ELSE Bad("C08/" \o e.acc \o "/civil_fields", i)
Init == l = 1
Next == \/ /\ l <= Len(Rec)
           /\ LET hi == IF l + Batch - 1 < Len(Rec) THEN l + Batch - 1 ELSE Len(Rec)
              IN (\A i \in l..hi : Check(Rec[i], i)) /\ l' = hi + 1
        \/ /\ l = Len(Rec) + 1 /\ PrintT(<<"TRACE-CONSUMED", Len(Rec)>>) /\ UNCHANGED l
TSpec == Init /\ [][Next]_l
=============================================================================
