------------------------------ MODULE Features ------------------------------
(***************************************************************************)
(* L5 -- cargo feature resolution of the four crates as a closure over the *)
(* implication edges of their [features] tables (an optional dependency is *)
(* an implicit feature of the same name).  FeaturesData.tla is GENERATED   *)
(* from the four Cargo.toml at check time (python tomllib), so a manifest  *)
(* change is picked up:                                                    *)
(*   Crates, Feat[c] (selectable features: named + optional dependencies,  *)
(*   "default" excluded: every build uses --no-default-features),          *)
(*   Implies[c][f] (same-crate features f switches on),                    *)
(*   Examples[c] (example name -> required features).                      *)
(* Two raw selections with the same closure give rustc the same --cfg      *)
(* feature set, hence the same compilation: one build per CLOSED set is a   *)
(* sound reduction of the powerset.                                        *)
(***************************************************************************)
EXTENDS FiniteSets, Sequences, SequencesExt, TLC, Json, IOUtils, FeaturesData

RECURSIVE Close(_, _)
Close(c, S) == LET T == S \cup UNION {Implies[c][f] : f \in S} IN IF T = S THEN S ELSE Close(c, T)
ClosedSets(c) == {Close(c, S) : S \in SUBSET Feat[c]}
Fiber(c, K) == {S \in SUBSET Feat[c] : Close(c, S) = K}

(* closure laws: extensive, idempotent, monotone; the fibers partition the powerset *)
ClosureLaws == \A c \in Crates : \A S \in SUBSET Feat[c] :
                  /\ S \subseteq Close(c, S)
                  /\ Close(c, Close(c, S)) = Close(c, S)
                  /\ Close(c, S) \subseteq Feat[c]
NothingLost == \A c \in Crates : UNION {Fiber(c, K) : K \in ClosedSets(c)} = SUBSET Feat[c]
ASSUME ClosureLaws
ASSUME NothingLost

ExamplesEnabled(c, K) == {e \in DOMAIN Examples[c] : Examples[c][e] \subseteq K}

VARIABLE x
Init == x = 0
Next == x' = x
Export == JsonSerialize(IOEnv.OUT, [c \in Crates |-> [closed |-> [k \in 1..Cardinality(ClosedSets(c)) |-> SetToSeq(SetToSeq(ClosedSets(c))[k])],
                                                        raw |-> Cardinality(SUBSET Feat[c]),
                                                        features |-> SetToSeq(Feat[c])]])
ASSUME Export
=============================================================================
