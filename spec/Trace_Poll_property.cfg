SPECIFICATION TSpec
CONSTANTS
  MaxVol = 999
  LastSeq = 55
  GetBudget = 1000000
  ListBudget = 1000000
  MaxFaults = 100000
  MaxUploads = 1000000
  Requests = FALSE
  Slack = TRUE
CONSTRAINT Track
POSTCONDITION Accept
INVARIANTS Advancing FirstIsNewestAtStart AtMostOneAfterStop OkOnlyAfterStop
CHECK_DEADLOCK FALSE
