---- MODULE MC_MsgHeader ----
(* The header operators are pure; the model run evaluates MsgHeader.tla's and Icd.tla's ASSUMEs and
   walks all 65,536 size values checking the regime split. *)
EXTENDS MsgHeader
VARIABLE size
Init == size = 0
Next == size < 65535 /\ size' = size + 1
Spec == Init /\ [][Next]_size
Regimes == /\ Segmented(size) <=> size # 65535
           /\ Segmented(size) => SizePair(size, 3, 4)[1] * 65536 + SizePair(size, 3, 4)[2] = 2 * size
           /\ ~Segmented(size) => SizePair(size, 3, 4) = <<3, 4>> /\ SegCount(size, 3) = -1 /\ SegNumber(size, 4) = -1
====
