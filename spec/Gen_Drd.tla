---- MODULE Gen_Drd ----
(* Mechanism G for Drd: the bounded message space of MC_Drd with concrete bytes computed by TLC. *)
EXTENDS MC_Drd, Json, IOUtils
Vec(mm) == [bytes |-> EncodeDrd(mm), hdr |-> mm.hdr, prod |-> Expected(mm).prod, end |-> ReaderEnd(mm),
            order |-> [k \in DOMAIN mm.blocks |-> mm.blocks[k].p], gaps |-> [k \in DOMAIN mm.blocks |-> mm.blocks[k].gap], ptrs |-> mm.ptrs]
ASSUME ndJsonSerialize(IOEnv.OUT, SetToSeq({Vec(mm) : mm \in Messages}))
GInit == m \in {} /\ DInit(<<>>)
====
