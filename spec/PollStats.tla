------------------------------ MODULE PollStats ------------------------------
(***************************************************************************)
(* Growth beyond the listed properties: the statistics channel of          *)
(* poll_chunks (PollStats).  What the code sends, in order:                *)
(*   LatestVolumeCalls(c)  once, after the volume search: c = listings made *)
(*   NewVolumeCalls(a)     after an end chunk: a = listing attempts used to *)
(*                         find a chunk in the next volume (sent even when  *)
(*                         the budget ran out)                              *)
(*   NewChunk{calls: a}    before every delivery except the first: a =      *)
(*                         download attempts used for that chunk            *)
(*   ChunkTimings          after every 11th NewChunk (counter 10 -> 0),     *)
(*                         then the timing window starts afresh             *)
(* This module wraps Poll.tla's actions and appends to `sq`, the sequence   *)
(* of statistics sent so far (the search's call count is checked by C15).  *)
(***************************************************************************)
EXTENDS Poll
VARIABLES sq,       \* statistics sent so far: <<"latest">> | <<"newvol", a>> | <<"chunk", a>> | <<"timings">>
          untilT    \* chunks_until_timing_stats
stvars == <<vars, sq, untilT>>
Keep == UNCHANGED <<sq, untilT>>

StInit == Init /\ sq = <<>> /\ untilT = 10
StSearch == PSearch /\ sq' = (IF up # NoPos \/ TRUE THEN Append(sq, <<"latest">>) ELSE sq) /\ UNCHANGED untilT
(* the NewVolumeCalls statistic carries the attempts used, also when the budget is exhausted *)
StListNext == /\ PListNext
              /\ sq' = IF vis[SuccVol(prev[1])] > 0 \/ att + 1 = ListBudget THEN Append(sq, <<"newvol", att + 1>>) ELSE sq
              /\ UNCHANGED untilT
(* NewChunk (and every 11th time ChunkTimings) is sent before the chunk is handed over *)
StDeliver == /\ PDeliver
             /\ LET withChunk == Append(sq, <<"chunk", att + 1>>) IN
                IF untilT = 0 THEN sq' = Append(withChunk, <<"timings">>) /\ untilT' = 10
                ELSE sq' = withChunk /\ untilT' = untilT - 1
StOther == (PListLatest \/ PGetLatest(TRUE) \/ PGetLatest(FALSE) \/ PDeliverLatest \/ PGetMeta(TRUE) \/ PGetMeta(FALSE) \/ PLoopTop \/ PNext
            \/ PGet(TRUE) \/ PGet(FALSE) \/ Upload \/ CStop \/ CDrop) /\ Keep
StNext == StSearch \/ StListNext \/ StDeliver \/ StOther
StSpec == StInit /\ [][StNext]_stvars

Chunks(s) == SelectSeq(s, LAMBDA x : x[1] = "chunk")
(* one NewChunk per delivery after the first; attempts within the budget; a timings report after every 11th *)
OnePerDelivery == Len(Chunks(sq)) = (IF hist = <<>> THEN 0 ELSE Len(hist) - 1) \/ (pc = "done" /\ why = "consumer")
AttemptsInBudget == \A j \in DOMAIN sq : (sq[j][1] = "chunk" => sq[j][2] \in 1..GetBudget) /\ (sq[j][1] = "newvol" => sq[j][2] \in 1..ListBudget)
TimingsEvery11 == Len(SelectSeq(sq, LAMBDA x : x[1] = "timings")) = Len(Chunks(sq)) \div 11
=============================================================================
