SPECIFICATION Spec
CONSTANT MaxN = 64
INVARIANT Export
CHECK_DEADLOCK FALSE
