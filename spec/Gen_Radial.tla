---- MODULE Gen_Radial ----
(* Mechanism G for Radial: the bounded type-31 message space of MC_Drd (both word sizes) with the
   model radial the specification requires. *)
EXTENDS MC_Drd, DateTime, Json, IOUtils
INSTANCE Radial
Vec(mm) == [bytes |-> EncodeDrd(mm), radial |-> RadialOf(mm.hdr, Expected(mm).prod)]
ASSUME \A mm \in Messages : OneValuePerGate(RadialOf(mm.hdr, Expected(mm).prod))
ASSUME ndJsonSerialize(IOEnv.OUT, SetToSeq({Vec(mm) : mm \in AllCanonical}))
GInit == m \in {} /\ DInit(<<>>)
====
