------------------------- MODULE Trace_Container -------------------------
(* Mechanism T for Container.
   {file, total, sizes, bz, recs, rt_ok, wrongway_ok, header_ok}   a well-formed volume the driver built:
        sizes[k] = |size prefix| of record k, bz[k] = payload starts with "BZ"; recs = what File::records
        returned as <<offset after the header, length, compressed>>; rt_ok = every compressed record
        decompressed to its plaintext; wrongway_ok = decompress(raw) and messages(compressed) were errors
   {arb, len, outcomes, kind, nrecs, data?}   arbitrary bytes through every entry point: outcomes[entry] in ok/err/panic *)
EXTENDS Container, Json, IOUtils
Rec == ndJsonDeserialize(IOEnv.TRACE)
Batch == 1024
VARIABLE l
Bad(sig, i) == PrintT(<<"MISMATCH", sig, i>>)
Entries(e) == DOMAIN e.outcomes
Check(e, i) ==
    IF "file" \in DOMAIN e THEN
        LET want == ExpectedRecords(e.sizes, e.total - HeaderSize) IN
        /\ IF Len(e.recs) = Len(want) /\ \A k \in DOMAIN want : e.recs[k][1] = want[k][1] /\ e.recs[k][2] = want[k][2] THEN TRUE ELSE Bad("C05/records/tiling", i)
        /\ IF Len(want) = Len(e.sizes) /\ (want = <<>> \/ want[Len(want)][1] + want[Len(want)][2] = e.total - HeaderSize) THEN TRUE ELSE Bad("TOOL/driver_file_not_wellformed", i)
        /\ IF Len(e.recs) = Len(e.bz) /\ \A k \in DOMAIN e.bz : (e.recs[k][3] = 1) = e.bz[k] THEN TRUE ELSE Bad("C05/compressed_flag", i)
        /\ IF e.rt_ok THEN TRUE ELSE Bad("C05/bzip2_roundtrip", i)
        /\ IF e.wrongway_ok THEN TRUE ELSE Bad("C05/error_contract", i)
        /\ IF e.header_ok THEN TRUE ELSE Bad("C05/header", i)
    ELSE
        /\ IF \A en \in Entries(e) : e.outcomes[en] \in {"ok", "err"} THEN TRUE
           ELSE Bad("C06/" \o (CHOOSE en \in Entries(e) : e.outcomes[en] \notin {"ok", "err"}) \o "/" \o e.outcomes[CHOOSE en \in Entries(e) : e.outcomes[en] \notin {"ok", "err"}], i)
        /\ IF "data" \in DOMAIN e /\ e.outcomes["chunk_new"] \in {"ok", "err"}
             THEN (IF (ChunkKind(e.data) = "error") = (e.outcomes["chunk_new"] = "err") THEN TRUE ELSE PrintT(<<"DRIFT", "C06/chunk_kind", i>>))
             ELSE TRUE
TInit == l = 1 /\ WInit(<<>>)
TNext == \/ /\ l <= Len(Rec)
            /\ LET hi == IF l + Batch - 1 < Len(Rec) THEN l + Batch - 1 ELSE Len(Rec)
               IN (\A i \in l..hi : Check(Rec[i], i)) /\ l' = hi + 1
            /\ UNCHANGED wvars
         \/ /\ l = Len(Rec) + 1 /\ PrintT(<<"TRACE-CONSUMED", Len(Rec)>>) /\ UNCHANGED <<l, wvars>>
TSpec == TInit /\ [][TNext]_<<l, wvars>>
=============================================================================
