SPECIFICATION GSpec
CONSTANTS
  MaxVol = 999
  LastSeq = 55
  GetBudget = 5
  ListBudget = 10
  MaxFaults = 3
  MaxUploads = 14
INVARIANT Export
CHECK_DEADLOCK FALSE
