SPECIFICATION TSpec
CONSTANTS
  MaxVol = 999
  LastSeq = 55
  GetBudget = 5
  ListBudget = 10
  MaxFaults = 100000
  MaxUploads = 1000000
  RadialsPerChunk = 0
CONSTRAINT Track
POSTCONDITION Accept
INVARIANTS EndToEnd TagsIncrease Advancing
CHECK_DEADLOCK FALSE
