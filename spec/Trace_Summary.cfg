SPECIFICATION TSpec
INVARIANT Partition
CHECK_DEADLOCK FALSE
