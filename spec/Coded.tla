------------------------------- MODULE Coded -------------------------------
(***************************************************************************)
(* Growth beyond the listed properties: the CODED ACCESSORS of the decode   *)
(* crate as partial functions.  Each accessor below turns a raw code into   *)
(* an enum; the ICD (and the crate) document a set of codes; several        *)
(* accessors PANIC on every other raw value by design, and the hand-written *)
(* Debug implementations call them.  C04 quantifies over the decoding       *)
(* entry points and the radial conversion, not over accessors or Debug, so  *)
(* this is a hazard census, not a verdict: a message that DECODES from the  *)
(* wire (C04 holds) can still panic the program that looks at it.           *)
(*                                                                         *)
(* Documented(acc) is the domain of the accessor; Raw(acc) every value the  *)
(* field can hold.  AccessorTotal is the property a user would like; TLC's  *)
(* counterexample names an accessor and the smallest raw value outside its  *)
(* domain.  The census line (Census) is what the driver must reproduce on   *)
(* the real accessors: exactly the undocumented raw values panic.           *)
(***************************************************************************)
EXTENDS RdaStatus, FiniteSets, Json, TLC

OtherDocumented == [
  drd_control_flags            |-> {0, 1, 2, 3},                         \* GenericDataBlockHeader::control_flags  (Code1)
  vol_volume_coverage_pattern  |-> {12, 31, 35, 112, 212, 215},          \* VolumeDataBlock::volume_coverage_pattern (Integer2)
  hdr_rda_redundant_channel    |-> {0, 1, 2, 8, 9, 10},                  \* MessageHeader::rda_redundant_channel  (Integer1)
  cfm_op_code                  |-> {0, 1, 2}]                            \* RangeZone::op_code  (Code2)
OtherWidth == [drd_control_flags |-> 1, vol_volume_coverage_pattern |-> 2, hdr_rda_redundant_channel |-> 1, cfm_op_code |-> 2]
(* total by construction in the code (a catch-all arm): listed so that the census also says where there is NO hazard *)
TotalAccessors == {"drd_radial_status", "drd_compression_indicator", "vol_processing_status", "hdr_message_type", "rda_command_acknowledgement"}

RdaPartial == DOMAIN Codes \ {"command_acknowledgement", "controlling_channel"}
Documented(acc) == IF acc \in DOMAIN OtherDocumented THEN OtherDocumented[acc] ELSE DOMAIN Codes[acc]
Width(acc) == IF acc \in DOMAIN OtherDocumented THEN OtherWidth[acc] ELSE 2
Raw(acc) == 0..(IF Width(acc) = 1 THEN 255 ELSE 65535)
AllPartial == DOMAIN OtherDocumented \cup RdaPartial
Undefined(acc) == Raw(acc) \ Documented(acc)
Min(S) == CHOOSE x \in S : \A y \in S : x <= y

(* The documented codes of the type-31 accessors and their meanings (Debug names of the enum variants); the RDA ones are
   RdaStatus!Codes (C12), the message header's are MsgHeader!ChannelTable (C10), the clutter map's Cfm (C13).  The listed
   properties fix the RAW fields of a type-31 message (C02) and the radial status / spacing as seen through the model radial
   (C07); what these accessors make of the raw values is covered here. *)
DrdMeanings == [
  drd_control_flags |-> [c \in 0..3 |-> CASE c = 0 -> "None" [] c = 1 -> "RecombinedAzimuthalRadials" [] c = 2 -> "RecombinedRangeGates"
                                            [] OTHER -> "RecombinedRadialsAndRangeGatesToLegacyResolution"],
  drd_compression_indicator |-> [c \in 0..255 |-> CASE c = 0 -> "Uncompressed" [] c = 1 -> "CompressedBZIP2" [] c = 2 -> "CompressedZLIB" [] OTHER -> "FutureUse"],
  drd_radial_status |-> [c \in 0..255 |-> CASE c = 0 -> "ElevationStart" [] c = 1 -> "IntermediateRadialData" [] c = 2 -> "ElevationEnd" [] c = 3 -> "VolumeScanStart"
                                            [] c = 4 -> "VolumeScanEnd" [] OTHER -> "ElevationStartVCPFinal"],
  vol_volume_coverage_pattern |-> [c \in {12, 31, 35, 112, 212, 215} |-> "VCP" \o ToString(c)]]
(* scaled accessors: value = raw * num / den in the unit given (ICD scalings); the driver reports round(value * den) *)
DrdScaled == [
  gen_data_moment_range |-> <<1, 1000>>,                  \* kilometres
  gen_data_moment_range_sample_interval |-> <<1, 1000>>,  \* kilometres
  gen_moment_size_x8 |-> <<1, 1>>,                        \* bytes * 8 = gates * word size (raw is the product reported by the driver)
  hdr_azimuth_resolution_spacing |-> <<1, 2>>,            \* degrees
  hdr_azimuth_indexing_mode |-> <<1, 100>>,               \* degrees; raw 0 = none (reported as -1)
  hdr_radial_length |-> <<1, 1>>,                         \* bytes
  rad_nyquist_velocity |-> <<1, 100>>,                    \* metres per second (ICD: scaled integer, precision 0.01)
  (* Named deviation UnambiguousRangeUnscaled: the ICD types this field, like the Nyquist velocity, as a scaled integer
     (kilometres, precision 0.1, range 115..511); the accessor applies NO scaling (raw 4660 reads as 4,660 km).  The table
     records the code as built; this is a suspected defect outside the listed properties (C02 fixes the raw field only). *)
  rad_unambiguous_range |-> <<1, 1>>]                     \* kilometres AS BUILT (ICD: raw / 10)

VARIABLE call                                   \* <<accessor, raw>>: one use of an accessor on a decoded message
Init == call \in {<<acc, r>> : acc \in AllPartial, r \in {0, 1, 2, 3, 4, 5, 7, 8, 16, 64, 255}}
Next == UNCHANGED call
Spec == Init /\ [][Next]_call
AccessorTotal == call[2] \in Documented(call[1])            \* what a user would like; violated (hazard)

Census == [acc \in AllPartial |-> [documented |-> Cardinality(Documented(acc)), raw_values |-> Cardinality(Raw(acc)),
                                   first_undefined |-> Min(Undefined(acc)), undefined |-> Cardinality(Undefined(acc))]]
Export == PrintT("REPLAY " \o ToJson([census |-> Census, total |-> TotalAccessors]))
ASSUME Export
=============================================================================
