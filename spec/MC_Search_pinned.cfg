SPECIFICATION SpecAsPinned
CONSTANT MaxN = 16
VIEW view
INVARIANTS Correct
CHECK_DEADLOCK FALSE
