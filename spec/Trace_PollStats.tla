------------------------- MODULE Trace_PollStats -------------------------
(* Mechanism T for PollStats (growth, informational): the session recordings of Trace_Poll with the
   statistics the real poll_chunks sent on its PollStats channel:
     stat {kind: "latest" | "newvol" | "chunk" | "timings", calls}
   The model's statistics queue `sq` runs ahead of the consumer (statistics are drained at request
   boundaries); every logged statistic must be the next unmatched element of `sq`, and at return all of
   `sq` must have been seen. *)
EXTENDS PollStats, Json, IOUtils
Rec == ndJsonDeserialize(IOEnv.TRACE)
VARIABLES l, si
tvars == <<stvars, l, si>>
ASSUME TLCSet(7, 0)
Is(e) == l <= Len(Rec) /\ Rec[l].ev = e
Adv == l' = l + 1
TInit == /\ Rec[1].ev = "init" /\ l = 2 /\ si = 0 /\ sq = <<>> /\ untilT = 10
         /\ IF Rec[1].seq = 0
              THEN /\ up = NoPos /\ vis = [v \in 1..MaxVol |-> 0]
                   /\ uploads = 0 /\ pc = "search" /\ latestVol = 0 /\ target = NoPos /\ att = 0 /\ prev = NoPos
                   /\ cons = "alive" /\ stop = "no" /\ faults = 0 /\ result = "running" /\ why = "" /\ hist = <<>> /\ histAtStop = 0 /\ window = {}
              ELSE InitWith(Rec[1].vol, Rec[1].seq, Rec[1].full)
K == UNCHANGED si
EvProbe == Is("probe") /\ pc = "search" /\ Adv /\ UNCHANGED stvars /\ K
EvUpload == Is("upload") /\ Upload /\ Keep /\ up' = <<Rec[l].vol, Rec[l].seq>> /\ Adv /\ K
EvStop == Is("stop") /\ CStop /\ Keep /\ Adv /\ K
EvDrop == Is("drop") /\ CDrop /\ Keep /\ Adv /\ K
EvList == /\ Is("list") /\ Adv /\ K
          /\ \/ pc = "listLatest" /\ PListLatest /\ Keep /\ Rec[l].vol = latestVol
             \/ pc = "listNext" /\ StListNext /\ Rec[l].vol = SuccVol(prev[1])
EvGet == /\ Is("get") /\ Adv /\ K /\ Keep
         /\ LET ok == Rec[l].status = 200 IN
            \/ (pc = "getLatest" /\ PGetLatest(ok))
            \/ (pc = "getMeta" /\ PGetMeta(ok))
            \/ (pc = "get" /\ PGet(ok))
EvDeliver == /\ Is("deliver") /\ Adv /\ K
             /\ ((PDeliverLatest /\ Keep) \/ StDeliver)
             /\ hist' # hist /\ hist'[Len(hist')] = <<Rec[l].vol, Rec[l].seq>>
EvStat == /\ Is("stat") /\ Adv /\ UNCHANGED stvars
          /\ si < Len(sq) /\ sq[si + 1][1] = Rec[l].kind
          /\ (Rec[l].kind \in {"chunk", "newvol"} => sq[si + 1][2] = Rec[l].calls)
          /\ si' = si + 1
EvReturn == /\ Is("return") /\ result # "running" /\ (Rec[l].ok <=> result = "ok") /\ si = Len(sq) /\ Adv /\ UNCHANGED stvars /\ K
Silent == ((PLoopTop /\ Keep) \/ (PNext /\ Keep) \/ (StSearch /\ ~Is("probe"))) /\ UNCHANGED <<l, si>>
SilentSendFail == cons = "dropped" /\ ((PDeliverLatest /\ Keep) \/ StDeliver) /\ UNCHANGED <<l, si>>
TNext == EvProbe \/ EvUpload \/ EvStop \/ EvDrop \/ EvList \/ EvGet \/ EvDeliver \/ EvStat \/ EvReturn \/ Silent \/ SilentSendFail
TSpec == TInit /\ [][TNext]_tvars
Track == IF l > TLCGet(7) THEN TLCSet(7, l) ELSE TRUE
Accept == IF TLCGet(7) = Len(Rec) + 1 THEN PrintT(<<"TRACE-CONSUMED", Len(Rec)>>)
          ELSE PrintT(<<"MISMATCH", "GROWTH/stats/" \o Rec[TLCGet(7)].ev, TLCGet(7)>>)
=============================================================================
