SPECIFICATION SpecAsPinned
CONSTANTS
  Elevs = {1, 2}
  MaxLen = 3
  Azs = {1}
  MaxSide = 0
INVARIANTS Conserve
CHECK_DEADLOCK FALSE
