---------------------------- MODULE MC_Framing ----------------------------
EXTENDS Framing, SequencesExt
CONSTANTS MaxMsgs

R1 == [k |-> "R", blocks |-> << <<"VOL", 0, 0>>, <<"ELV", 0, 0>>, <<"RAD", 0, 0>>, <<"REF", 8, 8>> >>]
R2 == [k |-> "R", blocks |-> << <<"VOL", 0, 0>>, <<"ELV", 0, 0>>, <<"RAD", 0, 0>>, <<"REF", 6, 8>>, <<"VEL", 4, 8>>, <<"SW", 2, 8>>,
                               <<"ZDR", 3, 8>>, <<"PHI", 5, 16>>, <<"RHO", 1, 8>>, <<"CFP", 2, 16>> >>]
R3 == [k |-> "R", blocks |-> <<>>]
Fixed(t) == [k |-> "F", t |-> t]
Alphabet == {Fixed(t) : t \in {0, 2, 5, 15, 18, 33, 255}} \cup {R1, R2, R3}

Streams == UNION {[1..n -> Alphabet] : n \in 0..MaxMsgs}

(* cut classes: none, every frame boundary, inside a trailing header, header complete with no body,
   inside a body, inside a type-31 header / pointer table / block, one byte short *)
Cuts(st) == {Total(st)} \cup UNION {LET s == EndOf(st, j - 1)
                                         e == EndOf(st, j)
                                     IN {s, s + 1, s + 27, s + 28, s + 29, s + 28 + 16, s + 28 + 34, (s + e) \div 2, e - 1} \cap (s..(e - 1)) : j \in 1..Len(st)}

MInit == \E st \in Streams : \E a \in Cuts(st) : FInit(st, a)
MSpec == MInit /\ [][FNext]_fvars /\ WF_fvars(FNext)
=============================================================================
