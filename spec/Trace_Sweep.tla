--------------------------- MODULE Trace_Sweep ---------------------------
(* Mechanism T for Sweep: a recording of the real Sweep::from_radials / Sweep::merge, validated
   against Sweep.tla's own actions.  Events:
     {ev:"input", els}  {ev:"sweep", el, ids, uniform}*  {ev:"end"}      one from_radials call
     {ev:"merge", ela, a, elb, b, err, ids}                              one merge call
   Between "input" and the first output event the specification's Push/Flush run as silent steps.
   A logged event the specification cannot explain prints <<"MISMATCH", signature, line>> and is
   consumed, so that the rest of the recording is still checked. *)
EXTENDS Sweep, Json, IOUtils

Rec == ndJsonDeserialize(IOEnv.TRACE)

VARIABLES l,   \* next line of the recording
          m    \* output sweeps of the current call matched so far
tvars == <<vars, l, m>>

TInit == /\ l = 1 /\ m = 0
         /\ in = <<>> /\ i = 1 /\ cur = <<>> /\ curEl = None /\ out = <<>> /\ pc = "done"

Is(e) == l <= Len(Rec) /\ Rec[l].ev = e

EvInput == /\ Is("input") /\ pc = "done"
           /\ in' = Tagged(Rec[l].els)
           /\ i' = 1 /\ cur' = <<>> /\ curEl' = None /\ out' = <<>> /\ pc' = "loop"
           /\ m' = 0 /\ l' = l + 1

Silent == (Push \/ Flush) /\ UNCHANGED <<l, m>>

Ids(rs) == [k \in DOMAIN rs |-> rs[k].id]

EvSweep == /\ Is("sweep") /\ pc = "done"
           /\ LET ok == /\ m + 1 <= Len(out)
                        /\ out[m + 1].el = Rec[l].el
                        /\ Ids(out[m + 1].rs) = Rec[l].ids
                        /\ Rec[l].uniform
              IN IF ok THEN TRUE ELSE PrintT(<<"MISMATCH", "C09/from_radials/content", l>>)
           /\ m' = m + 1 /\ l' = l + 1
           /\ UNCHANGED vars

EvEnd == /\ Is("end") /\ pc = "done"
         /\ \/ m = Len(out)
            \/ /\ m + 1 = Len(out)
               /\ PrintT(<<"MISMATCH", "C09/from_radials/final_run_lost", l>>)
            \/ /\ m # Len(out) /\ m + 1 # Len(out)
               /\ PrintT(<<"MISMATCH", "C09/from_radials/sweep_count", l>>)
         /\ l' = l + 1
         /\ UNCHANGED <<vars, m>>

EvPanic == /\ Is("panic") /\ pc = "done"
           /\ PrintT(<<"MISMATCH", "C09/from_radials/panic", l>>)
           /\ l' = l + 1 /\ UNCHANGED <<vars, m>>

MkSide(el, azs, base) == [el |-> el, rs |-> [k \in 1..Len(azs) |-> [az |-> azs[k], id |-> base + k]]]

EvMerge == /\ Is("merge") /\ pc = "done"
           /\ LET e == Rec[l]
                  M == Merge(MkSide(e.ela, e.a, 0), MkSide(e.elb, e.b, Len(e.a)))
              IN \/ /\ M = MergeErr /\ e.err
                 \/ /\ M # MergeErr /\ ~e.err /\ Ids(M.rs) = e.ids
                 \/ /\ (M = MergeErr) # e.err
                    /\ PrintT(<<"MISMATCH", "C09/merge/error_contract", l>>)
                 \/ /\ M # MergeErr /\ ~e.err /\ Ids(M.rs) # e.ids
                    /\ PrintT(<<"MISMATCH", "C09/merge/order", l>>)
           /\ l' = l + 1 /\ UNCHANGED <<vars, m>>

Consumed == /\ l = Len(Rec) + 1 /\ pc = "done"
            /\ PrintT(<<"TRACE-CONSUMED", Len(Rec)>>)
            /\ UNCHANGED tvars

TNext == EvInput \/ Silent \/ EvSweep \/ EvEnd \/ EvPanic \/ EvMerge \/ Consumed
TSpec == TInit /\ [][TNext]_tvars
=============================================================================
