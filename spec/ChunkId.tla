------------------------------ MODULE ChunkId ------------------------------
(***************************************************************************)
(* L4 -- nexrad-data/src/aws/realtime/chunk_identifier.rs, volume_index.rs, *)
(* chunk_type.rs and aws/archive/identifier.rs.                            *)
(*                                                                         *)
(* Real-time chunks live at SITE/VOLUME/NAME with VOLUME in 1..MaxVol       *)
(* (999) rotating, NAME = prefix(15) "-" seq(3 digits) "-" type, seq in     *)
(* 1..LastSeq (55), type S for 1, E for LastSeq, I otherwise.               *)
(* Strings whose characters matter are sequences of Unicode code points.   *)
(***************************************************************************)
EXTENDS Integers, Sequences, FiniteSets, DateTime

CONSTANTS MaxVol, LastSeq

VARIABLES vol, seq
civars == <<vol, seq>>

Positions == (1..MaxVol) \X (1..LastSeq)

SuccVol(v) == IF v + 1 > MaxVol THEN 1 ELSE v + 1
(* next_chunk(): Sequence(seq+1) below LastSeq, Volume(SuccVol) after it; the walk continues at
   the first chunk of that volume *)
SuccPos(v, s) == IF s < LastSeq THEN <<v, s + 1>> ELSE <<SuccVol(v), 1>>

TypeOf(s) == IF s = 1 THEN "S" ELSE IF s = LastSeq THEN "E" ELSE "I"

CIInit == vol = 1 /\ seq = 1
Succ == /\ vol' = SuccPos(vol, seq)[1]
        /\ seq' = SuccPos(vol, seq)[2]
CISpec == CIInit /\ [][Succ]_civars

InRange == vol \in 1..MaxVol /\ seq \in 1..LastSeq          \* never volume 0 or MaxVol+1
Injective == Cardinality({SuccPos(q[1], q[2]) : q \in Positions}) = Cardinality(Positions)

-----------------------------------------------------------------------------
(* code-point strings *)
Dash == 45
IsDigit(c) == c \in 48..57
DigitVal(c) == c - 48
Utf8Len(c) == IF c < 128 THEN 1 ELSE IF c < 2048 THEN 2 ELSE IF c < 65536 THEN 3 ELSE 4

RECURSIVE Fields(_, _)      \* split on '-' like str::split('-')
Fields(s, acc) == IF s = <<>> THEN <<acc>>
                  ELSE IF Head(s) = Dash THEN <<acc>> \o Fields(Tail(s), <<>>)
                  ELSE Fields(Tail(s), Append(acc, Head(s)))
Split(s) == Fields(s, <<>>)

RECURSIVE DecVal(_, _)
DecVal(s, acc) == IF s = <<>> THEN acc ELSE DecVal(Tail(s), acc * 10 + DigitVal(Head(s)))
AllDigits(s) == s # <<>> /\ \A j \in DOMAIN s : IsDigit(s[j])

(* ChunkIdentifier::sequence(): the third '-'-separated field as a decimal number.
   "yes": digits only, at most 9 of them (fits TLC's integers): must be Some(value)
   "no" : no third field, empty, or a character that is neither a digit nor a leading '+': must be None
   "unspecified": leading '+' or more than 9 digits (accepted or not is implementation detail) *)
SeqField(s) == IF Len(Split(s)) >= 3 THEN Split(s)[3] ELSE <<>>
SeqClass(s) == LET f == SeqField(s) IN
                 IF Len(Split(s)) < 3 \/ f = <<>> THEN "no"
                 ELSE IF AllDigits(f) THEN (IF Len(f) <= 9 THEN "yes" ELSE "unspecified")
                 ELSE IF Head(f) = 43 /\ AllDigits(Tail(f)) THEN "unspecified"
                 ELSE "no"
SeqValue(s) == DecVal(SeqField(s), 0)

(* ChunkIdentifier::chunk_type(): by the last character: S=83 -> 1, I=73 -> 2, E=69 -> 3, else 0 (None) *)
TypeCodeOf(s) == IF s = <<>> THEN 0
                 ELSE LET c == s[Len(s)] IN IF c = 83 THEN 1 ELSE IF c = 73 THEN 2 ELSE IF c = 69 THEN 3 ELSE 0

(* archive names: byte-range slicing get(a..b) of a UTF-8 string given as code points *)
RECURSIVE ByteLen(_)
ByteLen(s) == IF s = <<>> THEN 0 ELSE Utf8Len(Head(s)) + ByteLen(Tail(s))
RECURSIVE CharsBefore(_, _)   \* number of whole characters in the first b bytes, or -1 if b is inside a character / past the end
CharsBefore(s, b) == IF b = 0 THEN 0
                     ELSE IF s = <<>> \/ Utf8Len(Head(s)) > b THEN -1
                     ELSE LET r == CharsBefore(Tail(s), b - Utf8Len(Head(s))) IN IF r = -1 THEN -1 ELSE r + 1
ByteSlice(s, a, b) == LET ca == CharsBefore(s, a)
                          cb == CharsBefore(s, b)
                      IN IF ca = -1 \/ cb = -1 THEN <<-1>> ELSE SubSeq(s, ca + 1, cb)
NoSlice == <<-1>>

ArchSite(s) == ByteSlice(s, 0, 4)                          \* NoSlice means None
ArchDateField(s) == ByteSlice(s, 4, 12)
ArchTimeField(s) == ByteSlice(s, 13, 19)
(* "yes": both fields all digits and a valid calendar date / time of day -> Some(exact instant)
   "no" : a field is missing, or contains a character that chrono's numeric parsing can never accept
   "unspecified": anything else (signs, blanks: chrono's leniency is not part of the property; a separator other than '_') *)
Lenient(c) == IsDigit(c) \/ c \in {43, 45, 32, 9, 10, 11, 12, 13}
ArchClass(s) ==
    LET df == ArchDateField(s)
        tf == ArchTimeField(s)
    IN IF df = NoSlice THEN "no"
       ELSE IF \E j \in DOMAIN df : ~Lenient(df[j]) THEN "no"
       ELSE IF ~AllDigits(df) THEN "unspecified"
       ELSE IF ~ValidDate(DecVal(SubSeq(df, 1, 4), 0), DecVal(SubSeq(df, 5, 6), 0), DecVal(SubSeq(df, 7, 8), 0)) THEN "no"
       ELSE IF tf = NoSlice THEN "no"
       ELSE IF \E j \in DOMAIN tf : ~Lenient(tf[j]) THEN "no"
       ELSE IF ~AllDigits(tf) THEN "unspecified"
       ELSE IF DecVal(SubSeq(tf, 1, 2), 0) > 23 \/ DecVal(SubSeq(tf, 3, 4), 0) > 59 THEN "no"
       ELSE IF DecVal(SubSeq(tf, 5, 6), 0) > 59 THEN "unspecified"     \* leap second 60 is chrono's business
       ELSE IF ByteSlice(s, 12, 13) # <<95>> THEN "unspecified"         \* C16 speaks of SSSSYYYYMMDD_HHMMSS: with another separator the name is
                                                                        \* not of that form (the code ignores the byte; a stricter parser may refuse it)
       ELSE "yes"
ArchDays(s) == LET df == ArchDateField(s) IN DaysFromCivil(DecVal(SubSeq(df, 1, 4), 0), DecVal(SubSeq(df, 5, 6), 0), DecVal(SubSeq(df, 7, 8), 0))
ArchSecs(s) == LET tf == ArchTimeField(s) IN DecVal(SubSeq(tf, 1, 2), 0) * 3600 + DecVal(SubSeq(tf, 3, 4), 0) * 60 + DecVal(SubSeq(tf, 5, 6), 0)
=============================================================================
