SPECIFICATION Spec
INVARIANTS ExactlyItsBit BuildRule
CHECK_DEADLOCK FALSE
