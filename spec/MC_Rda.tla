---- MODULE MC_Rda ----
(* RdaStatus.tla is tables + pure operators; the model run evaluates its ASSUMEs and walks all raw
   values of one flag word checking "depends on exactly its bit". *)
EXTENDS RdaStatus
VARIABLE raw
Init == raw = 0
Next == raw < 65535 /\ raw' = raw + 1
Spec == Init /\ [][Next]_raw
ExactlyItsBit == \A a \in DOMAIN Flags : /\ Expected(a, raw) = Expected(a, IF HasBit(raw, Flags[a][2]) THEN Flags[a][2] ELSE 0)
                                         /\ Expected(a, Flags[a][2]) = 1 /\ Expected(a, 0) = 0
BuildRule == Whole("rda_build_number_x100", raw) = (IF raw * 10 > 2000 THEN raw ELSE raw * 10)
====
