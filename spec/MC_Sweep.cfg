SPECIFICATION Spec
CONSTANTS
  Elevs = {0, 1, 255}
  MaxLen = 6
  Azs = {1, 2, 3}
  MaxSide = 3
INVARIANTS TypeOK PrefixInv Conserve MachineEqualsDeclaration
PROPERTY Termination
CHECK_DEADLOCK FALSE
