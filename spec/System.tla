------------------------------- MODULE System -------------------------------
(***************************************************************************)
(* Composition (growth beyond the listed properties): the uploader         *)
(* publishes each volume as 1..LastSeq chunks; chunk 1 is the volume       *)
(* header + first LDM record, every other chunk one LDM record; a record   *)
(* is a compressed stream of messages.  The poller of Poll.tla delivers    *)
(* chunks; the consumer decodes every delivered chunk (Container ->        *)
(* Framing -> radial conversion) and, when it has received ALL chunks of a *)
(* volume in sequence, assembles the Archive II file by concatenation and  *)
(* converts it to a scan (Scan.tla).                                       *)
(*                                                                         *)
(* End-to-end statements:                                                  *)
(*   EndToEnd      the radials the consumer decoded are exactly the        *)
(*                 radials published in the delivered chunks, in order --  *)
(*                 none lost, duplicated or reordered across chunk and     *)
(*                 volume boundaries;                                      *)
(*   VolumeScans   a volume received completely scans to the maximal runs  *)
(*                 of all its radials with the coverage pattern of its     *)
(*                 first volume block.                                     *)
(***************************************************************************)
EXTENDS Poll

CONSTANTS RadialsPerChunk      \* bounded model: how many radials a non-start chunk carries

VARIABLES content,     \* <<vol, seq, serial>> |-> sequence of [el, id] published in that chunk (history of the uploader)
          serialOf,    \* directory -> serial number of its current generation
          nextId,      \* next radial tag
          got,         \* radials decoded by the consumer, in order of receipt
          expect,      \* what the delivered chunks contained, concatenated (history)
          scans        \* sequence of [vol, serial, sweeps] the consumer obtained from completely received volumes
svars == <<content, serialOf, nextId, got, expect, scans>>
allv == <<vars, svars>>

ElevOf(seq) == (seq + 1) \div 3                       \* elevation number of the radials a chunk carries (3 chunks per cut here)
ChunkRadials(seq, first) == IF seq = 1 THEN <<>> ELSE [k \in 1..RadialsPerChunk |-> [el |-> ElevOf(seq), id |-> first + k - 1]]

RECURSIVE FlatR(_)
FlatR(ss) == IF ss = <<>> THEN <<>> ELSE Head(ss) \o FlatR(Tail(ss))

(* declarative grouping, as in Sweep.tla *)
Starts(s) == {j \in 1..Len(s) : j = 1 \/ s[j].el # s[j-1].el}
EndOfRun(s, j) == CHOOSE e \in j..Len(s) : (e = Len(s) \/ (e + 1) \in Starts(s)) /\ \A m \in (j+1)..e : m \notin Starts(s)
SortedStarts(s) == LET S == Starts(s) IN [n \in 1..Cardinality(S) |-> CHOOSE j \in S : Cardinality({x \in S : x < j}) = n - 1]
Runs(s) == LET st == SortedStarts(s) IN [g \in 1..Len(st) |-> [el |-> s[st[g]].el, ids |-> [k \in 1..(EndOfRun(s, st[g]) - st[g] + 1) |-> s[st[g] + k - 1].id]]]

SUploadWith(rs) == /\ Upload
                   /\ LET nx == up' IN
                      /\ serialOf' = IF nx[2] = 1 THEN [serialOf EXCEPT ![nx[1]] = serialOf[nx[1]] + 1] ELSE serialOf
                      /\ content' = content @@ (<<nx[1], nx[2], serialOf'[nx[1]]>> :> rs)
                      /\ nextId' = nextId + Len(rs)
                   /\ UNCHANGED <<got, expect, scans>>
SUpload == SUploadWith(ChunkRadials((IF up = NoPos THEN <<1, 1>> ELSE SuccPos(up))[2], nextId))

(* the consumer decodes a delivered chunk; receiving the end chunk of a volume whose chunks 1..LastSeq
   all arrived in sequence triggers the volume scan *)
Delivered == hist' # hist
CompleteTail(h) == Len(h) >= LastSeq /\ \A k \in 1..LastSeq : h[Len(h) - LastSeq + k] = <<h[Len(h)][1], k>>
SDeliver == /\ (PDeliverLatest \/ PDeliver) /\ Delivered
            /\ LET c == hist'[Len(hist')]
                   rs == content[<<c[1], c[2], serialOf[c[1]]>>]
               IN /\ got' = got \o rs
                  /\ expect' = expect \o rs
                  /\ scans' = IF CompleteTail(hist')
                                THEN Append(scans, [vol |-> c[1], serial |-> serialOf[c[1]],
                                                    sweeps |-> Runs(FlatR([k \in 1..LastSeq |-> content[<<c[1], k, serialOf[c[1]]>>]]))])
                                ELSE scans
            /\ UNCHANGED <<content, serialOf, nextId>>
SFailedSend == (PDeliverLatest \/ PDeliver) /\ ~Delivered /\ UNCHANGED svars

SOther == (PSearch \/ PListLatest \/ PGetLatest(TRUE) \/ PGetLatest(FALSE) \/ PGetMeta(TRUE) \/ PGetMeta(FALSE) \/ PLoopTop \/ PNext
           \/ PListNext \/ PGet(TRUE) \/ PGet(FALSE) \/ CStop \/ CDrop) /\ UNCHANGED svars
SNext == SUpload \/ SDeliver \/ SFailedSend \/ SOther

SInitFrom(v0, s0) ==
    /\ InitWith(v0, s0, 0)
    /\ serialOf = [v \in 1..MaxVol |-> IF v = v0 THEN 1 ELSE 0]
    /\ content = [key \in {<<v0, k, 1>> : k \in 1..s0} |-> ChunkRadials(key[2], 1 + (IF key[2] <= 1 THEN 0 ELSE (key[2] - 2) * RadialsPerChunk))]
    /\ nextId = 1 + (IF s0 <= 1 THEN 0 ELSE (s0 - 1) * RadialsPerChunk)
    /\ got = <<>> /\ expect = <<>> /\ scans = <<>>
SInit == \E v0 \in 1..MaxVol, s0 \in 1..LastSeq : SInitFrom(v0, s0)
SSpec == SInit /\ [][SNext]_allv /\ WF_allv(SNext)

EndToEnd == got = expect
TagsIncrease == \A j \in 1..(Len(got) - 1) : got[j].id < got[j + 1].id            \* in order, none duplicated
NoneLostBetween == \A j \in 1..(Len(hist) - 1) :                                   \* consecutive chunks of one volume leave no gap in the tags
                     (hist[j + 1][1] = hist[j][1] /\ hist[j + 1][2] = hist[j][2] + 1 /\ hist[j][2] >= 2) =>
                        \E a \in 1..(Len(got) - 1) : got[a].el = ElevOf(hist[j][2]) /\ got[a + 1].id = got[a].id + 1
VolumeScans == \A n \in DOMAIN scans :
                 LET all == FlatR([k \in 1..LastSeq |-> content[<<scans[n].vol, k, scans[n].serial>>]])
                 IN /\ FlatR([g \in DOMAIN scans[n].sweeps |-> scans[n].sweeps[g].ids]) = [j \in DOMAIN all |-> all[j].id]
                    /\ \A g \in 1..(Len(scans[n].sweeps) - 1) : scans[n].sweeps[g].el # scans[n].sweeps[g + 1].el
=============================================================================
