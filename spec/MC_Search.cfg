SPECIFICATION Spec
CONSTANT MaxN = 24
VIEW view
INVARIANTS TypeOK Correct CallBound
PROPERTIES NearestOnlyImproves Termination
CHECK_DEADLOCK FALSE
