---------------------------- MODULE Trace_Scan ----------------------------
(* Mechanism T for Scan: one event per File::scan() call on a driver-built volume
     {recs, out, vcp, sweeps, same}    recs = the abstract volume (symbols per record);
        out = ok/err/panic; sweeps = [{el, ids}] as returned; same = every returned radial equals the
        radial obtained by decoding its message alone
   Scan!ScNext runs on recs as silent steps; at "done" the scan is compared. *)
EXTENDS Scan, Json, IOUtils
Rec == ndJsonDeserialize(IOEnv.TRACE)
VARIABLES l, loaded
tvars == <<allvars, l, loaded>>
Bad(sig) == PrintT(<<"MISMATCH", sig, l>>)
ToMsg(j) == IF j.k = "R" THEN [k |-> "R", el |-> j.el, vol |-> j.vol, id |-> j.id] ELSE [k |-> "M"]
ToVol(rs) == [r \in DOMAIN rs |-> [j \in DOMAIN rs[r] |-> ToMsg(rs[r][j])]]
Ids(rs) == [k \in DOMAIN rs |-> rs[k].id]
TInit == l = 1 /\ loaded = FALSE /\ ScInit(<<>>) 
Load == ~loaded /\ l <= Len(Rec) /\ ScReset(ToVol(Rec[l].recs)) /\ loaded' = TRUE /\ UNCHANGED l
Silent == loaded /\ ScNext /\ UNCHANGED <<l, loaded>>
Compare == /\ loaded /\ stage = "done"
           /\ LET e == Rec[l] IN
              IF e.out = "panic" THEN Bad("C01/scan/panic")
              ELSE IF result = "err" THEN (IF e.out = "err" THEN TRUE ELSE Bad("C01/scan/missing_vcp_accepted"))
              ELSE IF e.out # "ok" THEN Bad("C01/scan/error_on_wellformed")
              ELSE /\ IF e.vcp = vcp THEN TRUE ELSE Bad("C01/scan/coverage_pattern")
                   /\ IF Len(e.sweeps) = Len(out) /\ \A g \in DOMAIN out : e.sweeps[g].el = out[g].el /\ e.sweeps[g].ids = Ids(out[g].rs) THEN TRUE
                      ELSE IF Len(e.sweeps) + 1 = Len(out) /\ \A g \in DOMAIN e.sweeps : e.sweeps[g].el = out[g].el /\ e.sweeps[g].ids = Ids(out[g].rs) THEN Bad("C01/scan/final_sweep_lost")
                      ELSE Bad("C01/scan/radials")
                   /\ IF e.same THEN TRUE ELSE Bad("C01/scan/radial_altered")
           /\ loaded' = FALSE /\ l' = l + 1 /\ UNCHANGED allvars
Consumed == ~loaded /\ l = Len(Rec) + 1 /\ PrintT(<<"TRACE-CONSUMED", Len(Rec)>>) /\ UNCHANGED tvars
TNext == Load \/ Silent \/ Compare \/ Consumed
TSpec == TInit /\ [][TNext]_tvars
=============================================================================
