SPECIFICATION MSpec
INVARIANTS ExactlyDeclared FrameLimit
PROPERTY Terminates
CHECK_DEADLOCK FALSE
