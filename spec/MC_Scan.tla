------------------------------ MODULE MC_Scan ------------------------------
(* every message stream of up to MaxMsgs symbols over {R(el1, VOL a), R(el1, no VOL), R(el2, VOL b),
   R(el2, no VOL), metadata} x every split into up to MaxRecs records (empty records included) *)
EXTENDS Scan
CONSTANTS MaxMsgs, MaxRecs
VARIABLE vol0
Kinds == {<<"R", 0, 212>>, <<"R", 0, 0>>, <<"R", 1, 35>>, <<"R", 1, 0>>, <<"M", 0, 0>>}
Streams == UNION {[1..n -> Kinds] : n \in 0..MaxMsgs}
MsgOf(t, idx) == IF t[1] = "R" THEN [k |-> "R", el |-> t[2], vol |-> t[3], id |-> idx] ELSE [k |-> "M"]
Build(f) == [j \in 1..Len(f) |-> MsgOf(f[j], j)]
(* splits: a non-decreasing sequence of cut positions *)
Splits(n) == UNION {{c \in [1..r -> 0..n] : \A a \in 1..(r - 1) : c[a] <= c[a + 1]} : r \in 0..(MaxRecs - 1)}
Cut(ms, c) == [r \in 1..(Len(c) + 1) |-> SubSeq(ms, (IF r = 1 THEN 0 ELSE c[r - 1]) + 1, IF r = Len(c) + 1 THEN Len(ms) ELSE c[r])]
Volumes == UNION {{Cut(Build(f), c) : c \in Splits(Len(f))} : f \in Streams}
MInit == vol0 \in Volumes /\ ScInit(vol0)
ANextRecord == NextRecord /\ UNCHANGED vol0
ATakeMessage == TakeMessage /\ UNCHANGED vol0
AStartGrouping == StartGrouping /\ UNCHANGED vol0
AGroup == Group /\ UNCHANGED vol0
AFinish == Finish /\ UNCHANGED vol0
MNext == ANextRecord \/ ATakeMessage \/ AStartGrouping \/ AGroup \/ AFinish
MSpec == MInit /\ [][MNext]_<<allvars, vol0>> /\ WF_allvars(ScNext)
ConservesInv == Conserves(vol0)
AccInvariant == AccInv(vol0)
(* the result does not depend on how the stream is split into records: it is a function of the flat stream *)
====
