SPECIFICATION MSpec
CONSTANTS
  MaxMsgs = 4
  MaxRecs = 3
  Elevs = {0, 1}
  MaxLen = 0
INVARIANTS ConservesInv AccInvariant
PROPERTY ScTerminates
CHECK_DEADLOCK FALSE
