SPECIFICATION TSpec
CONSTANTS
  Elevs = {0}
  MaxLen = 0
CHECK_DEADLOCK FALSE
