INIT GInit
NEXT CNext
CONSTANT NAz = 360
CHECK_DEADLOCK FALSE
