---- MODULE Gen_S3 ----
(* Mechanism G for S3: every bucket over a key set with XML-special and non-ASCII characters x request
   (site/volume x max-keys; site/date) with the listing the specification requires and the request
   grammar. *)
EXTENDS MC_S3, Json, IOUtils
Str(s) == s
KD == <<75, 68, 77, 88>>                   \* "KDMX"
KE == <<75, 68, 77, 89>>                   \* "KDMY"
Names == {<<97>>, <<98, 38, 60, 62, 34, 39>>, <<233, 8364>>, <<50, 48, 50, 52, 45, 48, 48, 49, 45, 83>>,
          <<32, 97, 32>>, <<9, 98, 10>>}            \* " a " and TAB b LF: white space at the edges of a key is part of the key
RtKeys == {RealtimeKey(KD, 5, n) : n \in Names} \cup {RealtimeKey(KD, 57, <<97>>), RealtimeKey(KE, 5, <<97>>), RealtimeKey(KD, 5, <<120, 47, 121>>)}
RtBuckets == {{[key |-> k, lm |-> <<19800 + Len(k), 1000 * Len(k) + 250>>, size |-> Len(k)] : k \in S} : S \in {T \in SUBSET RtKeys : Cardinality(T) <= 4}}
RtVec(b, site, vol, mk) == [api |-> "realtime", site |-> site, vol |-> vol, max |-> mk, bucket |-> SetToSeq(b),
                            expect |-> RealtimeListing(b, site, vol, mk), bucket_name |-> RealtimeBucket, req_prefix |-> RealtimePrefix(site, vol)]
ArNames == {<<75, 68, 77, 88, 50, 48, 50, 52, 48, 53, 48, 49, 95, 48, 48, 48, 48, 48, 48, 95, 86, 48, 54>>, <<75, 68, 77, 88, 50, 48, 50, 52, 48, 53, 48, 49, 95, 50, 51, 53, 57, 53, 57, 95, 86, 48, 54>>, <<122, 38, 233>>}
ArKeys == {ArchiveKey(2024, 5, 1, KD, n) : n \in ArNames} \cup {ArchiveKey(2024, 5, 2, KD, <<97>>), ArchiveKey(2024, 5, 1, KE, <<97>>)}
ArBuckets == {{[key |-> k, lm |-> <<19850, 3600000 + Len(k)>>, size |-> 7] : k \in S} : S \in SUBSET ArKeys}
ArVec(b, site, d) == [api |-> "archive", site |-> site, y |-> 2024, m |-> 5, d |-> d, bucket |-> SetToSeq(b),
                      expect |-> ArchiveListing(b, 2024, 5, d, site), bucket_name |-> ArchiveBucket, req_prefix |-> ArchivePrefix(2024, 5, d, site)]
ASSUME ndJsonSerialize(IOEnv.OUT, SetToSeq({RtVec(b, KD, v, mk) : b \in RtBuckets, v \in {5, 57}, mk \in {1, 2, 100}})
                                  \o SetToSeq({ArVec(b, s, d) : b \in ArBuckets, s \in {KD, KE}, d \in {1, 2}}))
GInit == PInit(<<>>) /\ want = <<>>
====
