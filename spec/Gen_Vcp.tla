---- MODULE Gen_Vcp ----
(* Mechanism G for Vcp: messages with 0, 1, 2 and 51 cuts as bytes computed by TLC (distinct field
   values), plus cut counts that do not fit the frame. *)
EXTENDS Vcp, Json, IOUtils, SequencesExt
Fill(layout, salt) == [nm \in Names(layout) |-> [j \in 1..WidthOf(layout, nm) |-> (salt * 23 + IndexOf(layout, nm) * 17 + j * 7 + 1) % 256]]
Hdr(n, salt) == [Fill(VcpHeaderL, salt) EXCEPT !["number_of_elevation_cuts"] = U16Bytes(n)]
Msg(n, salt) == [hdr |-> Hdr(n, salt), cuts |-> [k \in 1..n |-> Fill(VcpCutL, salt + k)]]
Bytes(m) == EncodeBy(VcpHeaderL, m.hdr) \o Concat([k \in 1..Len(m.cuts) |-> EncodeBy(VcpCutL, m.cuts[k])])
Good == {[bytes |-> Bytes(Msg(n, s)), hdr |-> Msg(n, s).hdr, cuts |-> Msg(n, s).cuts, expect |-> "ok"] : n \in {0, 1, 2, 51}, s \in {1, 2, 3}}
Bad == {[bytes |-> EncodeBy(VcpHeaderL, Hdr(n, 5)), hdr |-> Hdr(n, 5), cuts |-> <<>>, expect |-> "err"] : n \in {52, 53, 100, 32768, 65535}}
ASSUME ndJsonSerialize(IOEnv.OUT, SetToSeq(Good \cup Bad))
GInit == VInit(0, 0)
====
