---------------------------- MODULE Trace_Coded ----------------------------
(* Mechanism T for Coded.tla (growth, informational): one line per coded accessor from the driver's census
     {acc, width, tried, panics, first_panic, returns, returns_for, debug_panics_at}
   The census of the REAL accessors must be the specification's: they return exactly on the documented codes and
   panic on the smallest undocumented raw value.  Disagreement is reported as DRIFT (never a verdict). *)
EXTENDS Coded, IOUtils, SequencesExt, TLC
Rec == ndJsonDeserialize(IOEnv.TRACE)
VARIABLE l
Drift(sig, i) == PrintT(<<"DRIFT", sig, i>>)
CheckLine(e, i) ==
    IF "meaning" \in DOMAIN e THEN          \* {acc, meaning: [[raw, name]...]}: Debug name of the accessor's result per documented raw value
       (IF e.acc \in DOMAIN DrdMeanings /\ \A k \in DOMAIN e.meaning : e.meaning[k][1] \in DOMAIN DrdMeanings[e.acc] /\ DrdMeanings[e.acc][e.meaning[k][1]] = e.meaning[k][2]
          THEN TRUE ELSE Drift("GROWTH/coded/" \o e.acc \o "/meaning", i))
    ELSE IF "scaled" \in DOMAIN e THEN      \* {acc, scaled: [[raw, round(value * den)]...]}
       (IF e.acc \in DOMAIN DrdScaled /\ \A k \in DOMAIN e.scaled : e.scaled[k][2] = (IF e.acc = "hdr_azimuth_indexing_mode" /\ e.scaled[k][1] = 0 THEN -1 ELSE e.scaled[k][1] * DrdScaled[e.acc][1])
          THEN TRUE ELSE Drift("GROWTH/coded/" \o e.acc \o "/scaling", i))
    ELSE IF e.acc \notin AllPartial THEN Drift("GROWTH/coded/unknown_accessor", i)
    ELSE /\ IF {e.returns_for[k] : k \in DOMAIN e.returns_for} = Documented(e.acc) /\ e.returns = Cardinality(Documented(e.acc)) THEN TRUE
            ELSE Drift("GROWTH/coded/" \o e.acc \o "/domain", i)
         /\ IF e.first_panic = Min(Undefined(e.acc)) /\ e.panics = e.tried - e.returns THEN TRUE ELSE Drift("GROWTH/coded/" \o e.acc \o "/panics", i)
TInit == l = 1
TNext == \/ l <= Len(Rec) /\ CheckLine(Rec[l], l) /\ l' = l + 1 /\ UNCHANGED call
         \/ l = Len(Rec) + 1 /\ PrintT(<<"TRACE-CONSUMED", Len(Rec)>>) /\ UNCHANGED <<l, call>>
TSpec == call = <<"rda_status", 16>> /\ TInit /\ [][TNext]_<<l, call>>
=============================================================================
