SPECIFICATION CISpec
CONSTANTS
  MaxVol = 999
  LastSeq = 55
INVARIANT InRange
CHECK_DEADLOCK FALSE
