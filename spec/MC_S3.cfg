SPECIFICATION MSpec
INVARIANTS OnePerContents SizeErrorIsError
PROPERTY PTerminates
CHECK_DEADLOCK FALSE
