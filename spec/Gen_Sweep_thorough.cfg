INIT GenInit
NEXT GenNext
CONSTANTS
  Elevs = {0, 1, 2, 255}
  MaxLen = 8
  Azs = {1, 2, 3}
  MaxSide = 3
CHECK_DEADLOCK FALSE
