---------------------------- MODULE MC_Estimate ----------------------------
EXTENDS Estimate
CONSTANTS MaxOps, Durs, Atts, MaxCuts
K1 == <<"I", 1, 0>>
K2 == <<"I", 2, 1>>
Keys == {K1, K2}

MNext == /\ Len(Get(all, K1)) + Len(Get(all, K2)) < MaxOps
         /\ \E k \in Keys, d \in Durs, a \in Atts : AddTiming(k, d, a)
MSpec == EInit /\ [][MNext]_evars

CutLists == UNION {[1..n -> [hr : BOOLEAN, wf : {1, 2}, ch : {0, 1}]] : n \in 0..MaxCuts}
Seqs == 1..(2 + 6 * MaxCuts)

MapOk == \A cuts \in CutLists :
           /\ CutOf(cuts, 1) = 0
           /\ \A s \in Seqs : CutOf(cuts, s) = CutOfDecl(cuts, s)
           /\ \A s \in Seqs : s > 1 + SumSpan(cuts, Len(cuts)) => CutOf(cuts, s) = 0
           /\ \A s, t \in Seqs : (1 < s /\ s <= t /\ CutOf(cuts, t) # 0) => (CutOf(cuts, s) # 0 /\ CutOf(cuts, s) <= CutOf(cuts, t))
ASSUME MapOk

(* with non-negative durations and attempts >= 1 an estimate is never earlier than the previous upload *)
NotEarlier == \A cuts \in {c \in CutLists : Len(c) <= 1} : \A s \in 0..(LastSeq + 1) :
                 LET e == EstimateMs(s, cuts, win) IN e = NoEstimate \/ e >= 0
NoneOutside == \A cuts \in {c \in CutLists : Len(c) <= 1} :
                 /\ EstimateMs(0, cuts, win) = NoEstimate /\ EstimateMs(LastSeq + 1, cuts, win) = NoEstimate
                 /\ EstimateMs(LastSeq, cuts, win) = 10000
=============================================================================
