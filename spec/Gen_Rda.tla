---- MODULE Gen_Rda ----
(* Mechanism G for RdaStatus: 60-halfword messages with distinct field bytes computed by TLC. *)
EXTENDS RdaStatus, Json, IOUtils, SequencesExt
VARIABLE x
Fill(salt) == [nm \in Names(RdaL) |-> [j \in 1..WidthOf(RdaL, nm) |-> (salt * 37 + IndexOf(RdaL, nm) * 19 + j * 7 + 2) % 256]]
ASSUME ndJsonSerialize(IOEnv.OUT, SetToSeq({[bytes |-> EncodeBy(RdaL, Fill(s)), fields |-> Fill(s)] : s \in 1..40}))
Init == x = 0
Next == x' = x
====
