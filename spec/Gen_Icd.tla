---- MODULE Gen_Icd ----
(* exports the layout tables for the driver's table-driven encoder *)
EXTENDS Icd, Json, IOUtils, TLC
VARIABLE x
LayoutJson(l) == [k \in DOMAIN l |-> [name |-> l[k][1], width |-> l[k][2], offset |-> OffsetIn(l, k)]]
ASSUME JsonSerialize(IOEnv.OUT, [nm \in DOMAIN Layouts |-> LayoutJson(Layouts[nm])])
Init == x = 0
Next == x' = x
====
