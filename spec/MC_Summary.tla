---- MODULE MC_Summary ----
EXTENDS Summary
CONSTANT MaxLen
Sym(s, idx) == CASE s = 1 -> [k |-> "R", ty |-> 31, el |-> 1, vcp |-> 0, tm |-> idx, ps |-> {"REF"}]
                 [] s = 2 -> [k |-> "R", ty |-> 31, el |-> 2, vcp |-> 0, tm |-> 20 - idx, ps |-> {"REF", "VEL"}]      \* times running backwards
                 [] s = 3 -> [k |-> "R", ty |-> 31, el |-> 1, vcp |-> 212, tm |-> idx, ps |-> {}]
                 [] s = 4 -> [k |-> "S", ty |-> 2, el |-> None, vcp |-> 0, tm |-> IF idx = 2 THEN 0 ELSE idx, ps |-> {}]
                 [] s = 5 -> [k |-> "V", ty |-> 5, el |-> None, vcp |-> 0, tm |-> idx, ps |-> {}]
                 [] s = 6 -> [k |-> "O", ty |-> 15, el |-> None, vcp |-> 0, tm |-> idx, ps |-> {}]
                 [] OTHER -> [k |-> "O", ty |-> 18, el |-> None, vcp |-> 0, tm |-> idx, ps |-> {}]
Lists == UNION {[1..n -> 1..7] : n \in 0..MaxLen}
Build(f) == [j \in 1..Len(f) |-> Sym(f[j], j)]
MInit == \E f \in Lists : SInit(Build(f))
MSpec == MInit /\ [][SNext]_svars /\ WF_svars(SNext)
====
