SPECIFICATION Spec999
CONSTANTS
  MaxN = 999
  Slice = TRUE
VIEW view
INVARIANTS Correct CallBound
CHECK_DEADLOCK FALSE
