SPECIFICATION Spec999
CONSTANT MaxN = 999
VIEW view
INVARIANTS Correct CallBound
CHECK_DEADLOCK FALSE
