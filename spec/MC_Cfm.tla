------------------------------ MODULE MC_Cfm ------------------------------
(* NAz = 2 in the exhaustive configuration: every map with up to 2 segments, zone lists up to 2
   zones over ops {0, 2} and two end ranges; every truncation point of every map with <= 1 segment. *)
EXTENDS Cfm
VARIABLES m, cut
Zones == {<<>>} \cup {<<z>> : z \in {<<0, 5>>, <<2, 300>>}} \cup {<<a, b>> : a \in {<<0, 5>>, <<2, 300>>}, b \in {<<1, 7>>, <<2, 511>>}}
Segs == [1..NAz -> Zones]
Maps == {<<>>} \cup {<<s>> : s \in Segs} \cup {<<s, t>> : s \in Segs, t \in {u \in Segs : u[1] # <<>>}}
Full(mm) == EncodeCfm(19000, 725, mm)
MInit == /\ m \in Maps
         /\ cut \in (IF Len(m) <= 1 THEN 0..Len(Full(m)) ELSE {Len(Full(m))})
         /\ CInit(SubSeq(Full(m), 1, cut))
MNext == CNext /\ UNCHANGED <<m, cut>>
MSpec == MInit /\ [][MNext]_<<cvars, m, cut>> /\ WF_cvars(CNext)
RoundTrip == (pc = "done" /\ cut = Len(Full(m))) => status = "ok" /\ out = m /\ pos = cut
TruncationIsError == (pc = "done" /\ cut < Len(Full(m))) => status = "err"
====
