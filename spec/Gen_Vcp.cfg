INIT GInit
NEXT VNext
CHECK_DEADLOCK FALSE
