------------------------------ MODULE Summary ------------------------------
(***************************************************************************)
(* L3 -- nexrad-decode/src/summarize.rs: summarize::messages as the single *)
(* pass state machine it is, AND a declarative ExpectedSummary.            *)
(*                                                                         *)
(* An abstract decoded message is                                          *)
(*   [k  |-> "R" | "S" | "V" | "O",   radial / status / VCP / other        *)
(*    ty |-> message type code, el |-> elevation number (R),               *)
(*    vcp |-> VCP number of its volume block or 0 (R),                      *)
(*    tm |-> collection time: 0 = the epoch itself, 1 = one millisecond     *)
(*           after it, k >= 2 = k seconds into the day,                    *)
(*    ps |-> set of moment products it carries (R)]                         *)
(* Message indices are 0-based in the summary, as in the code.             *)
(***************************************************************************)
EXTENDS Integers, Sequences, FiniteSets, TLC

None == -1
Kind(m) == m.k

(* can message m extend the open group g? *)
CanContinue(g, m) == \/ Kind(m) = "R" /\ g.k = "R" /\ g.el = m.el
                     \/ Kind(m) = "O" /\ g.k = "O" /\ g.ty = m.ty

Count1(m) == [p \in m.ps |-> 1]
AddCounts(d, m) == [p \in (DOMAIN d) \cup m.ps |-> (IF p \in DOMAIN d THEN d[p] ELSE 0) + (IF p \in m.ps THEN 1 ELSE 0)]

Open(m, idx, cont) == [k |-> m.k, ty |-> m.ty, el |-> IF m.k = "R" THEN m.el ELSE None, first |-> idx, last |-> idx, count |-> 1,
                       st |-> m.tm, et |-> m.tm, cont |-> cont, dts |-> IF m.k = "R" THEN Count1(m) ELSE <<>>]
Extend(g, m, idx) == [g EXCEPT !.last = idx, !.count = g.count + 1, !.et = m.tm, !.dts = IF m.k = "R" THEN AddCounts(g.dts, m) ELSE g.dts]

Continued(gs, m) == m.k = "R" /\ \E j \in DOMAIN gs : gs[j].k = "R" /\ gs[j].el = m.el

VARIABLES msgs, i, cur, groups, earliest, latest, vcps, pc
svars == <<msgs, i, cur, groups, earliest, latest, vcps, pc>>
NoGroup == [none |-> TRUE]

SInit(ms) == msgs = ms /\ i = 1 /\ cur = NoGroup /\ groups = <<>> /\ earliest = None /\ latest = None /\ vcps = {} /\ pc = "loop"
SReset(ms) == msgs' = ms /\ i' = 1 /\ cur' = NoGroup /\ groups' = <<>> /\ earliest' = None /\ latest' = None /\ vcps' = {} /\ pc' = "loop"

Timed(m) == m.k \in {"R", "S"}

Step == /\ pc = "loop" /\ i <= Len(msgs)
        /\ LET m == msgs[i] IN
           /\ IF Timed(m)
                THEN /\ earliest' = IF (earliest = None \/ earliest > m.tm) /\ m.tm > 0 THEN m.tm ELSE earliest     \* EarliestIgnoresNonPositive
                     /\ latest' = IF latest = None \/ latest < m.tm THEN m.tm ELSE latest
                ELSE UNCHANGED <<earliest, latest>>
           /\ IF cur # NoGroup /\ CanContinue(cur, m)
                THEN /\ cur' = Extend(cur, m, i - 1) /\ UNCHANGED groups
                ELSE /\ groups' = IF cur = NoGroup THEN groups ELSE Append(groups, cur)
                     /\ cur' = Open(m, i - 1, Continued(groups', m))
           /\ vcps' = IF m.k = "R" /\ m.vcp # 0 THEN vcps \cup {m.vcp} ELSE vcps
        /\ i' = i + 1 /\ UNCHANGED <<msgs, pc>>

Finish == /\ pc = "loop" /\ i > Len(msgs)
          /\ groups' = IF cur = NoGroup THEN groups ELSE Append(groups, cur)
          /\ cur' = NoGroup /\ pc' = "done"
          /\ UNCHANGED <<msgs, i, earliest, latest, vcps>>

SNext == Step \/ Finish

-----------------------------------------------------------------------------
(* declarative summary *)
Boundary(ms, j) == \/ j = 1
                   \/ ms[j].k \in {"S", "V"}
                   \/ ms[j].k # ms[j-1].k
                   \/ (ms[j].k = "R" /\ ms[j].el # ms[j-1].el)
                   \/ (ms[j].k = "O" /\ ms[j].ty # ms[j-1].ty)
Starts(ms) == {j \in 1..Len(ms) : Boundary(ms, j)}
EndOfRun(ms, j) == CHOOSE e \in j..Len(ms) : (e = Len(ms) \/ (e + 1) \in Starts(ms)) /\ \A x \in (j+1)..e : x \notin Starts(ms)
ProductsIn(ms, a, b) == UNION {ms[x].ps : x \in a..b}
GroupOf(ms, a, b) == [k |-> ms[a].k, ty |-> ms[a].ty, el |-> IF ms[a].k = "R" THEN ms[a].el ELSE None,
                      first |-> a - 1, last |-> b - 1, count |-> b - a + 1, st |-> ms[a].tm, et |-> ms[b].tm,
                      cont |-> ms[a].k = "R" /\ \E x \in 1..(a - 1) : ms[x].k = "R" /\ ms[x].el = ms[a].el,
                      dts |-> IF ms[a].k = "R" THEN [p \in ProductsIn(ms, a, b) |-> Cardinality({x \in a..b : p \in ms[x].ps})] ELSE <<>>]
SortedStarts(ms) == LET S == Starts(ms) IN [n \in 1..Cardinality(S) |-> CHOOSE j \in S : Cardinality({x \in S : x < j}) = n - 1]
ExpectedGroups(ms) == LET st == SortedStarts(ms) IN [n \in 1..Len(st) |-> GroupOf(ms, st[n], EndOfRun(ms, st[n]))]
TimedSet(ms) == {ms[x].tm : x \in {y \in 1..Len(ms) : Timed(ms[y])}}
ExpectedEarliest(ms) == LET T == {t \in TimedSet(ms) : t > 0} IN IF T = {} THEN None ELSE CHOOSE t \in T : \A u \in T : t <= u
ExpectedLatest(ms) == LET T == TimedSet(ms) IN IF T = {} THEN None ELSE CHOOSE t \in T : \A u \in T : t >= u
ExpectedVcps(ms) == {ms[x].vcp : x \in {y \in 1..Len(ms) : ms[y].k = "R" /\ ms[y].vcp # 0}}

(* properties *)
Tiles(gs, n) == /\ (n = 0 <=> gs = <<>>)
                /\ n > 0 => gs[1].first = 0 /\ gs[Len(gs)].last = n - 1
                /\ \A g \in 1..(Len(gs) - 1) : gs[g + 1].first = gs[g].last + 1
                /\ \A g \in DOMAIN gs : gs[g].count = gs[g].last - gs[g].first + 1 /\ gs[g].count >= 1
MachineEqualsDeclaration == pc = "done" => /\ groups = ExpectedGroups(msgs)
                                           /\ earliest = ExpectedEarliest(msgs) /\ latest = ExpectedLatest(msgs)
                                           /\ vcps = ExpectedVcps(msgs)
Partition == pc = "done" => Tiles(groups, Len(msgs))
Terminates == <>(pc = "done")
=============================================================================
