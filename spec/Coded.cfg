SPECIFICATION Spec
INVARIANT AccessorTotal
CHECK_DEADLOCK FALSE
