----------------------------- MODULE Container -----------------------------
(***************************************************************************)
(* L2 -- Archive II volume container, nexrad-data/src/volume/{file,record, *)
(* header}.rs and aws/realtime/chunk.rs.                                   *)
(*                                                                         *)
(* file   = volume header (24 bytes, Icd!VolumeHeaderL) ++ records         *)
(* record = 4-byte big-endian signed size prefix ++ |size| payload bytes   *)
(* A record is compressed iff its payload starts with "BZ".  bzip2 itself   *)
(* is uninterpreted: a compressed payload is <<66, 90>> ++ an opaque body   *)
(* whose decompression is the plaintext it was made from.                  *)
(* The record walk is the GUARDED machine: a truncated size prefix or a    *)
(* record that does not fit ends the list (shorter list, never a crash).   *)
(***************************************************************************)
EXTENDS Icd, TLC

HeaderSize == SizeOf(VolumeHeaderL)
B == 66
Z == 90
MaxInt == 2147483647

(* |size| of a 4-byte two's-complement prefix; 0x80000000 saturates (TLC integers are 32-bit) *)
AbsSize(b) == IF b[1] < 128 THEN U31Of(b)
              ELSE IF b = <<128, 0, 0, 0>> THEN MaxInt
              ELSE ((255 - b[1]) * 16777216 + (255 - b[2]) * 65536 + (255 - b[3]) * 256 + (255 - b[4])) + 1
PrefixBytes(size, neg) == IF ~neg \/ size = 0 THEN U32Bytes(size)
                          ELSE LET c == size - 1 IN <<255 - ((c \div 16777216) % 256), 255 - ((c \div 65536) % 256), 255 - ((c \div 256) % 256), 255 - (c % 256)>>

Compressed(rec) == Len(rec) >= 6 /\ rec[5] = B /\ rec[6] = Z

-----------------------------------------------------------------------------
(* the guarded walk over the bytes after the header *)
VARIABLES data, pos, recs, pc
wvars == <<data, pos, recs, pc>>
WInit(d) == data = d /\ pos = 0 /\ recs = <<>> /\ pc = "walk"
WStep == /\ pc = "walk"
         /\ IF pos >= Len(data) THEN pc' = "done" /\ UNCHANGED <<pos, recs>>
            ELSE IF pos + 4 > Len(data) THEN pc' = "done" /\ UNCHANGED <<pos, recs>>          \* truncated prefix
            ELSE LET n == AbsSize(SubSeq(data, pos + 1, pos + 4)) IN
                 IF n > Len(data) - pos - 4 THEN pc' = "done" /\ UNCHANGED <<pos, recs>>      \* record does not fit
                 ELSE /\ recs' = Append(recs, <<pos, 4 + n>>) /\ pos' = pos + 4 + n /\ UNCHANGED pc
         /\ UNCHANGED data
InBounds == \A k \in DOMAIN recs : recs[k][1] >= 0 /\ recs[k][1] + recs[k][2] <= Len(data)
Contiguous == /\ \A k \in 1..(Len(recs) - 1) : recs[k + 1][1] = recs[k][1] + recs[k][2]
              /\ (recs # <<>> => recs[1][1] = 0)
Progress == pos <= Len(data)
WTerminates == <>(pc = "done")

(* File::records(): bytes after the header; a file shorter than the header has no records *)
AfterHeader(file) == IF Len(file) <= HeaderSize THEN <<>> ELSE SubSeq(file, HeaderSize + 1, Len(file))

-----------------------------------------------------------------------------
(* the same walk on an abstract description: sizes[k] = |size prefix| of the k-th record laid out
   back to back from offset 0, `total` bytes available *)
RECURSIVE WalkSizes(_, _, _, _)
WalkSizes(sizes, k, at, total) ==
    IF k > Len(sizes) \/ at + 4 > total \/ sizes[k] > total - at - 4 THEN <<>>
    ELSE <<<<at, 4 + sizes[k]>>>> \o WalkSizes(sizes, k + 1, at + 4 + sizes[k], total)
ExpectedRecords(sizes, total) == WalkSizes(sizes, 1, 0, total)

(* chunk sniffing, Chunk::new *)
ChunkKind(d) == IF Len(d) >= 3 /\ SubSeq(d, 1, 3) = <<65, 82, 50>> THEN "start"
                ELSE IF Len(d) >= 6 /\ d[5] = B /\ d[6] = Z THEN "record"
                ELSE "error"
=============================================================================
