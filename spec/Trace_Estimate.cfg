SPECIFICATION TSpec
CONSTANTS
  Window = 10
  LastSeq = 55
INVARIANT WindowIsSuffix
CHECK_DEADLOCK FALSE
