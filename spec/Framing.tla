------------------------------ MODULE Framing ------------------------------
(***************************************************************************)
(* L1 -- message stream framing, nexrad-decode/src/messages.rs             *)
(* (decode_messages / decode_message_contents).                            *)
(*                                                                         *)
(* A stream is a concatenation of well-formed messages.  A symbol is       *)
(*   [k |-> "F", t |-> type code]          a 2432-byte fixed frame         *)
(*   [k |-> "R", blocks |-> <<<<product, gates, word>>, ...>>]              *)
(*                                         a type-31 message laid out      *)
(*                                         contiguously, ascending pointers *)
(* The input available to the decoder is the first `avail` bytes of the     *)
(* stream (truncation = a nondeterministic cut).  The decoder machine:      *)
(* TryHeader (fewer than 28 bytes left => stop, ok), Body (fixed: exactly   *)
(* 2432-28 bytes whatever the type; type 31: the whole message) -- a body   *)
(* that cannot be read completely is an error that propagates.             *)
(***************************************************************************)
EXTENDS Icd, TLC

HeaderLen == SizeOf(MsgHeaderL)

BlockSize(b) == SizeOf(BlockLayout(b[1])) + (IF b[1] \in Moments THEN b[2] * (b[3] \div 8) ELSE 0)
RECURSIVE SumBlocks(_)
SumBlocks(bs) == IF bs = <<>> THEN 0 ELSE BlockSize(Head(bs)) + SumBlocks(Tail(bs))
SymLen(s) == IF s.k = "F" THEN FrameSize
             ELSE HeaderLen + SizeOf(DrdHeaderL) + 4 * Len(s.blocks) + SumBlocks(s.blocks)

RECURSIVE EndOf(_, _)         \* offset just past message j
EndOf(st, j) == IF j = 0 THEN 0 ELSE EndOf(st, j - 1) + SymLen(st[j])
Total(st) == EndOf(st, Len(st))

VARIABLES stream, avail, pos, out, pc, status
fvars == <<stream, avail, pos, out, pc, status>>

FInit(st, a) == /\ stream = st /\ avail = a /\ pos = 0 /\ out = <<>> /\ pc = "hdr" /\ status = "run"

TryHeader == /\ pc = "hdr" /\ status = "run"
             /\ IF avail - pos < HeaderLen
                  THEN /\ status' = "ok" /\ pc' = "done" /\ UNCHANGED <<pos, out>>
                  ELSE /\ pos' = pos + HeaderLen /\ pc' = "body" /\ UNCHANGED <<out, status>>
             /\ UNCHANGED <<stream, avail>>

(* the message being decoded is the one after those already delivered *)
Cur == Len(out) + 1

Body == /\ pc = "body" /\ status = "run"
        /\ LET need == SymLen(stream[Cur]) - HeaderLen IN
           IF avail - pos >= need
             THEN /\ pos' = pos + need /\ out' = Append(out, Cur) /\ pc' = "hdr" /\ UNCHANGED status
             ELSE /\ status' = "err" /\ pc' = "done" /\ UNCHANGED <<pos, out>>
        /\ UNCHANGED <<stream, avail>>

FNext == TryHeader \/ Body
FSpec(st, a) == FInit(st, a) /\ [][FNext]_fvars /\ WF_fvars(FNext)

-----------------------------------------------------------------------------
(* declarative outcome *)
Complete(st, a) == CHOOSE k \in 0..Len(st) : EndOf(st, k) <= a /\ (k = Len(st) \/ EndOf(st, k + 1) > a)
ExpectedStatus(st, a) == LET k == Complete(st, a) IN
                           IF k = Len(st) \/ a - EndOf(st, k) < HeaderLen THEN "ok" ELSE "err"
ExpectedCount(st, a) == Complete(st, a)

Aligned == pc = "hdr" => \E k \in 0..Len(stream) : pos = EndOf(stream, k)
Variant == avail - pos >= 0 \/ pc = "done"
MachineEqualsDeclaration ==
    pc = "done" => /\ status = ExpectedStatus(stream, avail)
                   /\ (status = "ok" => out = [j \in 1..ExpectedCount(stream, avail) |-> j])
NoSilentShortening == (pc = "done" /\ status = "ok") => (Len(out) = Len(stream) \/ avail - EndOf(stream, Len(out)) < HeaderLen)
Terminates == <>(pc = "done")
=============================================================================
