---- MODULE Gen_Container ----
(* Mechanism G for Container: volume header fields and every bounded record list; "bz" records carry
   their PLAINTEXT (the driver inserts the real bzip2 stream and patches the size prefix). *)
EXTENDS MC_Container, Json, IOUtils
Ascii(salt, n) == [j \in 1..n |-> 48 + ((salt * 7 + j * 3) % 43)]
HeaderRec(salt) == [tape_filename |-> <<65, 82, 50, 86, 48, 48, 48, 54, 46>>, extension_number |-> Ascii(salt, 3),
                    date |-> <<0, 0, (19000 + salt) \div 256, (19000 + salt) % 256>>, time |-> <<1, salt, 3, 4>>, icao_of_radar |-> Ascii(salt + 5, 4)]
Kinds == {"raw", "bz"}
Specs == Payloads \X BOOLEAN \X Kinds
GLists == UNION {[1..n -> Specs] : n \in 0..2} \cup {<<a, b, c>> : a \in {<<<<7, 8>>, FALSE, "bz">>, <<<<66, 90, 104, 1, 2>>, TRUE, "raw">>}, b \in Specs, c \in {<<<<>>, FALSE, "raw">>, <<<<1, 2, 3, 4, 5>>, TRUE, "bz">>}}
IsBz(s) == s[3] = "bz" \/ (Len(s[1]) >= 2 /\ s[1][1] = 66 /\ s[1][2] = 90)
Vec(l, salt) == [header |-> HeaderRec(salt), header_bytes |-> EncodeBy(VolumeHeaderL, HeaderRec(salt)),
                 recs |-> [k \in DOMAIN l |-> [payload |-> l[k][1], neg |-> l[k][2], kind |-> l[k][3]]],
                 n |-> Len(l), compressed |-> [k \in DOMAIN l |-> IsBz(l[k])]]
ASSUME ndJsonSerialize(IOEnv.OUT, SetToSeq({Vec(l, (Len(l) * 3 + 1)) : l \in GLists}))
GInit == WInit(<<>>) /\ want = <<>> /\ wf = FALSE
====
