SPECIFICATION TSpec
CONSTANTS
  MaxVol = 999
  LastSeq = 55
  GetBudget = 5
  ListBudget = 10
  MaxFaults = 100000
  MaxUploads = 1000000
  Requests = TRUE
  Slack = FALSE
CONSTRAINT Track
POSTCONDITION Accept
INVARIANTS Advancing FirstIsNewestAtStart AtMostOneAfterStop OkOnlyAfterStop
CHECK_DEADLOCK FALSE
