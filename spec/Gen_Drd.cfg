INIT GInit
NEXT MNext
CONSTANTS
  MaxPerm = 3
  ExtraSubsets <- SmallFamilies
CHECK_DEADLOCK FALSE
