---------------------------- MODULE Trace_Total ----------------------------
(* Mechanism T for C04: one event per decoding call of the real code on arbitrary bytes
     {entry, class, len, outcome, peak, ms, model?}
   outcome in ok / err / panic / hang; peak = bytes allocated above the baseline during the call.
   Accepted iff the call returned a value or an error and its peak memory is within
   AllocBound(len) (MC_Total's constant-plus-linear bound).  The model's own ok/err prediction for
   type-31 fault classes is drift-only: the property allows either. *)
EXTENDS Integers, Sequences, TLC, Json, IOUtils
Rec == ndJsonDeserialize(IOEnv.TRACE)
Batch == 2048
MaxMsgAllocKB == (65535 * 4 + 7 * 65535 * 31) \div 1024 + 1
(* constant + linear, in KiB: 64 MiB of constant (the statement leaves the constant open; a fixed pre-allocation is not a violation), one message's worst case per 60 input bytes (header + type-31 header), plus 1 KiB per 16 input bytes *)
AllocBoundKB(len) == MaxMsgAllocKB * (1 + len \div 60) + len \div 16 + 65536
VARIABLE l
Bad(sig, i) == PrintT(<<"MISMATCH", sig, i>>)
Check(e, i) ==
    /\ IF e.outcome \in {"ok", "err"} THEN TRUE ELSE Bad("C04/" \o e.entry \o "/" \o e.outcome, i)
    /\ IF e.len > 500000 \/ e.peak \div 1024 <= AllocBoundKB(e.len) THEN TRUE ELSE Bad("C04/" \o e.entry \o "/memory", i)
    /\ IF "model" \in DOMAIN e /\ e.outcome \in {"ok", "err"} /\ e.model # e.outcome THEN PrintT(<<"DRIFT", "C04/model_outcome", i>>) ELSE TRUE
Init == l = 1
Next == \/ /\ l <= Len(Rec)
           /\ LET hi == IF l + Batch - 1 < Len(Rec) THEN l + Batch - 1 ELSE Len(Rec)
              IN (\A i \in l..hi : Check(Rec[i], i)) /\ l' = hi + 1
        \/ /\ l = Len(Rec) + 1 /\ PrintT(<<"TRACE-CONSUMED", Len(Rec)>>) /\ UNCHANGED l
TSpec == Init /\ [][Next]_l
=============================================================================
