-------------------------- MODULE Trace_Estimate --------------------------
(* Mechanism T for Estimate: operation sequences on the real ChunkTimingStats /
   estimate_next_chunk_time / get_elevation_from_chunk, validated statefully: every "add" event is
   Estimate!AddTiming, "est"/"map"/"stats" events are checked against the current window.
     add   {t, wf, ch, dur, att}
     est   {prev, cuts, res}            res = offset in ms from the previous upload time or NoEstimate
     map   {seq, cuts, cut}             cut = index of the returned cut (0 = none)
     stats {rows: [{t, wf, ch, avg, att}]}   att = mean attempts x 2520 (exact for windows <= 10)
     reset                               a fresh ChunkTimingStats *)
EXTENDS Estimate, Json, IOUtils

Rec == ndJsonDeserialize(IOEnv.TRACE)
VARIABLE l
tvars == <<evars, l>>

Bad(sig) == PrintT(<<"MISMATCH", sig, l>>)
Is(o) == l <= Len(Rec) /\ Rec[l].op = o

TInit == EInit /\ l = 1

EvAdd == /\ Is("add")
         /\ AddTiming(Key(Rec[l].t, Rec[l].wf, Rec[l].ch), Rec[l].dur, Rec[l].att)
         /\ l' = l + 1

EvReset == /\ Is("reset") /\ win' = <<>> /\ all' = <<>> /\ l' = l + 1

EvEst == /\ Is("est")
         /\ LET want == EstimateMs(Rec[l].prev, Rec[l].cuts, win)
            IN IF want = Rec[l].res THEN TRUE
               ELSE IF want = NoEstimate \/ Rec[l].res = NoEstimate THEN Bad("C19/estimate/none_contract")
               ELSE IF Rec[l].res < 0 THEN Bad("C19/estimate/earlier_than_previous")
               ELSE Bad("C19/estimate/value")
         /\ l' = l + 1 /\ UNCHANGED evars

EvMap == /\ Is("map")
         /\ IF CutOf(Rec[l].cuts, Rec[l].seq) = Rec[l].cut THEN TRUE ELSE Bad("C19/mapping/cut")
         /\ l' = l + 1 /\ UNCHANGED evars

StatRows == {<<k[1], k[2], k[3], TruncDiv(SumDur(win[k]), Len(win[k])), (SumAtt(win[k]) * 2520) \div Len(win[k])>> : k \in DOMAIN win}
EvStats == /\ Is("stats")
           /\ IF {<<r.t, r.wf, r.ch, r.avg, r.att>> : r \in {Rec[l].rows[j] : j \in DOMAIN Rec[l].rows}} = StatRows /\ Len(Rec[l].rows) = Cardinality(DOMAIN win)
                THEN TRUE ELSE Bad("C19/window/statistics")
           /\ l' = l + 1 /\ UNCHANGED evars

Consumed == /\ l = Len(Rec) + 1 /\ PrintT(<<"TRACE-CONSUMED", Len(Rec)>>) /\ UNCHANGED tvars

TNext == EvAdd \/ EvReset \/ EvEst \/ EvMap \/ EvStats \/ Consumed
TSpec == TInit /\ [][TNext]_tvars
=============================================================================
