----------------------------- MODULE MsgHeader -----------------------------
(***************************************************************************)
(* L1 -- the 28-byte message header,                                       *)
(* nexrad-decode/src/messages/message_header.rs, message_type.rs.          *)
(* Layout: Icd!MsgHeaderL.  Type mapping, redundant-channel mapping, and   *)
(* the two size regimes: segmented (size field = halfword count of this     *)
(* segment) and variable-length (size field = 0xFFFF; the full size in     *)
(* bytes is the 32-bit value in bytes 12..15 = <<segment_count,            *)
(* segment_number>>).  32-bit sizes travel as <<hi16, lo16>>.              *)
(***************************************************************************)
EXTENDS Icd, TLC

VariableLength == 65535

TypeTable == [c \in {1, 2, 3, 4, 5, 6, 7, 8, 9, 10, 11, 12, 13, 14, 15, 16, 17, 18, 20, 21, 22, 23, 24, 25, 26, 29, 31, 32, 33} |->
    CASE c = 1 -> "RDADigitalRadarData" [] c = 2 -> "RDAStatusData" [] c = 3 -> "RDAPerformanceMaintenanceData"
      [] c = 4 -> "RDAConsoleMessage" [] c = 5 -> "RDAVolumeCoveragePattern" [] c = 6 -> "RDAControlCommands"
      [] c = 7 -> "RPGVolumeCoveragePattern" [] c = 8 -> "RPGClutterCensorZones" [] c = 9 -> "RPGRequestForData"
      [] c = 10 -> "RPGConsoleMessage" [] c = 11 -> "RDALoopBackTest" [] c = 12 -> "RPGLoopBackTest"
      [] c = 13 -> "RDAClutterFilterBypassMap" [] c = 14 -> "Spare1" [] c = 15 -> "RDAClutterFilterMap"
      [] c = 16 -> "ReservedFAARMSOnly1" [] c = 17 -> "ReservedFAARMSOnly2" [] c = 18 -> "RDAAdaptationData"
      [] c = 20 -> "Reserved1" [] c = 21 -> "Reserved2" [] c = 22 -> "Reserved3" [] c = 23 -> "Reserved4"
      [] c = 24 -> "ReservedFAARMSOnly3" [] c = 25 -> "ReservedFAARMSOnly4" [] c = 26 -> "ReservedFAARMSOnly5"
      [] c = 29 -> "Reserved5" [] c = 31 -> "RDADigitalRadarDataGenericFormat" [] c = 32 -> "RDAPRFData" [] c = 33 -> "RDALogData"]

TypeName(c) == IF c \in DOMAIN TypeTable THEN TypeTable[c] ELSE "Unknown(" \o ToString(c) \o ")"

ChannelTable == [c \in {0, 1, 2, 8, 9, 10} |->
    CASE c = 0 -> "LegacySingleChannel" [] c = 1 -> "LegacyRedundantChannel1" [] c = 2 -> "LegacyRedundantChannel2"
      [] c = 8 -> "ORDASingleChannel" [] c = 9 -> "ORDARedundantChannel1" [] c = 10 -> "ORDARedundantChannel2"]

Segmented(size) == size # VariableLength
(* reported size in bytes as <<hi16, lo16>> *)
SizePair(size, cnt, num) == IF Segmented(size) THEN <<(2 * size) \div 65536, (2 * size) % 65536>> ELSE <<cnt, num>>
SegCount(size, cnt) == IF Segmented(size) THEN cnt ELSE -1        \* -1: accessor absent
SegNumber(size, num) == IF Segmented(size) THEN num ELSE -1
SegSizeBytes(size) == IF Segmented(size) THEN 2 * size ELSE -1

ASSUME \A a, b \in DOMAIN TypeTable : a # b => TypeTable[a] # TypeTable[b]
ASSUME \A a, b \in DOMAIN ChannelTable : a # b => ChannelTable[a] # ChannelTable[b]
ASSUME \A c \in 0..255 : c \notin DOMAIN TypeTable => TypeName(c) = "Unknown(" \o ToString(c) \o ")"
ASSUME \A s \in {0, 1, 32767, 32768, 65534} : SizePair(s, 7, 9) = <<(2 * s) \div 65536, (2 * s) % 65536>> /\ SegCount(s, 7) = 7
ASSUME SizePair(65535, 7, 9) = <<7, 9>> /\ SegCount(65535, 7) = -1 /\ SegSizeBytes(65535) = -1
=============================================================================
