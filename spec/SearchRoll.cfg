SPECIFICATION RSpec
CONSTANTS
  MaxN = 10
  MaxRolls = 2
INVARIANTS ResultWasPopulated
PROPERTY RTerminates
CHECK_DEADLOCK FALSE
