SPECIFICATION Spec
CONSTANT MaxN = 24
INVARIANT Export
CHECK_DEADLOCK FALSE
