---- MODULE Gen_Scan ----
(* Mechanism G for Scan: every bounded volume (message kinds x record split) with the scan required. *)
EXTENDS MC_Scan, Json, IOUtils
Proj(runs) == [g \in DOMAIN runs |-> [el |-> runs[g].el, ids |-> [j \in DOMAIN runs[g].rs |-> runs[g].rs[j].id]]]
SymJ(mm) == IF mm.k = "R" THEN [k |-> "R", el |-> mm.el, vol |-> mm.vol, id |-> mm.id] ELSE [k |-> "M", el |-> 0, vol |-> 0, id |-> 0]
Vec(v) == [recs |-> [r \in DOMAIN v |-> [j \in DOMAIN v[r] |-> SymJ(v[r][j])]],
           vcp |-> FirstVol(FlatRecs(v)), sweeps |-> Proj(MaximalRuns(RadialSeq(FlatRecs(v))))]
ASSUME ndJsonSerialize(IOEnv.OUT, SetToSeq({Vec(v) : v \in Volumes}))
GInit == vol0 = <<>> /\ ScInit(<<>>)
====
