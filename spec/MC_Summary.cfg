SPECIFICATION MSpec
CONSTANT MaxLen = 5
INVARIANTS MachineEqualsDeclaration Partition
PROPERTY Terminates
CHECK_DEADLOCK FALSE
