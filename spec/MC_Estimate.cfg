SPECIFICATION MSpec
CONSTANTS
  Window = 3
  LastSeq = 8
  MaxOps = 5
  Durs = {0, 4500}
  Atts = {1, 3}
  MaxCuts = 2
INVARIANTS WindowIsSuffix NotEarlier NoneOutside
CHECK_DEADLOCK FALSE
