---- MODULE Gen_Cfm ----
(* Mechanism G for Cfm: full-size maps (NAz = 360) with 0, 1, 2 segments as bytes computed by TLC;
   zone counts 0..3 per azimuth in a pattern, distinct end ranges, all three op codes. *)
EXTENDS Cfm, Json, IOUtils, SequencesExt
ZoneList(s, a, salt) == [k \in 1..((a + s + salt) % 4) |-> <<(a + k + salt) % 3, (s * 1000 + a * 2 + k * 7 + salt) % 65536>>]
Map(n, salt) == [s \in 1..n |-> [a \in 1..NAz |-> ZoneList(s, a, salt)]]
Minutes(n, salt) == IF salt = 0 THEN 1439 - n ELSE 1093 + n      \* late in the day: minutes x 60 exceeds 16 bits
Vec(n, salt) == [bytes |-> EncodeCfm(19000 + salt, Minutes(n, salt), Map(n, salt)), date |-> 19000 + salt, minutes |-> Minutes(n, salt),
                 instant |-> <<19000 + salt - 1, Minutes(n, salt) * 60000>>, map |-> Map(n, salt)]
ASSUME ndJsonSerialize(IOEnv.OUT, SetToSeq({Vec(n, salt) : n \in {0, 1, 2}, salt \in {0, 1}}))
GInit == CInit(<<>>)
====
