----------------------------- MODULE RdaStatus -----------------------------
(***************************************************************************)
(* L1 -- RDA Status Data (message type 2),                                 *)
(* nexrad-decode/src/messages/rda_status_data*.  Layout: Icd!RdaL (60      *)
(* halfwords).  Code tables map each DOCUMENTED code to its meaning (the   *)
(* Debug name of the enum variant); flag tables map each flag accessor to  *)
(* its single documented bit (as a mask value).  Undocumented codes are    *)
(* outside the specification (several accessors panic there by design).    *)
(***************************************************************************)
EXTENDS Icd, TLC

Pow2(n) == 2 ^ n
HasBit(raw, mask) == (raw \div mask) % 2 = 1

Codes == [
  rda_status |-> [c \in {2, 4, 8, 16, 32, 64} |-> CASE c = 2 -> "StartUp" [] c = 4 -> "Standby" [] c = 8 -> "Restart" [] c = 16 -> "Operate" [] OTHER -> "Spare"],
  operability_status |-> [c \in {2, 4, 8, 16, 32} |-> CASE c = 2 -> "OnLine" [] c = 4 -> "MaintenanceActionRequired" [] c = 8 -> "MaintenanceActionMandatory" [] c = 16 -> "CommandedShutDown" [] OTHER -> "Inoperable"],
  control_status |-> [c \in {2, 4, 8} |-> CASE c = 2 -> "LocalControlOnly" [] c = 4 -> "RemoteControlOnly" [] OTHER -> "EitherLocalOrRemoteControl"],
  auxiliary_power_generator_state |-> [c \in {1, 2, 4, 8, 16} |-> CASE c = 1 -> "SwitchedToAuxiliaryPower" [] c = 2 -> "UtilityPowerAvailable" [] c = 4 -> "GeneratorOn" [] c = 8 -> "TransferSwitchSetToManual" [] OTHER -> "CommandedSwitchover"],
  rda_control_authorization |-> [c \in {0, 2, 4} |-> CASE c = 0 -> "NoAction" [] c = 2 -> "LocalControlRequested" [] OTHER -> "RemoteControlRequested"],
  operational_mode |-> [c \in {4, 8} |-> IF c = 4 THEN "Operational" ELSE "Maintenance"],
  super_resolution_status |-> [c \in {2, 4} |-> IF c = 2 THEN "Enabled" ELSE "Disabled"],
  command_acknowledgement |-> [c \in {0, 1, 2, 3, 4} |-> CASE c = 0 -> "None" [] c = 1 -> "Some(RemoteVCPReceived)" [] c = 2 -> "Some(ClutterBypassMapReceived)" [] c = 3 -> "Some(ClutterCensorZonesReceived)" [] OTHER -> "Some(RedundantChannelControlCommandAccepted)"],
  controlling_channel |-> [c \in {0, 1} |-> IF c = 0 THEN "true" ELSE "false"],
  spot_blanking_status |-> [c \in {0, 1, 4} |-> CASE c = 0 -> "NotInstalled" [] c = 1 -> "Enabled" [] OTHER -> "Disabled"],
  transition_power_source_status |-> [c \in {0, 1, 3, 4} |-> CASE c = 0 -> "NotInstalled" [] c = 1 -> "Off" [] c = 3 -> "OK" [] OTHER -> "Unknown"],
  rms_control_status |-> [c \in {0, 2, 4} |-> CASE c = 0 -> "NonRMS" [] c = 2 -> "RMSInControl" [] OTHER -> "RDAInControl"],
  performance_check_status |-> [c \in {0, 1, 2} |-> CASE c = 0 -> "NoCommandPending" [] c = 1 -> "ForcePerformanceCheckPending" [] OTHER -> "InProgress"]]

(* which field of the layout each coded accessor reads *)
CodeField(acc) == IF acc = "controlling_channel" THEN "channel_control_status" ELSE acc

(* flag accessor -> <<field, mask>> *)
Flags == [
  dte_none |-> <<"data_transmission_enabled", 1>>, dte_reflectivity |-> <<"data_transmission_enabled", 2>>,
  dte_velocity |-> <<"data_transmission_enabled", 4>>, dte_spectrum_width |-> <<"data_transmission_enabled", 8>>,
  sdf_avset_enabled |-> <<"rda_scan_and_data_flags", 2>>, sdf_ebc_enabled |-> <<"rda_scan_and_data_flags", 8>>,
  sdf_rda_log_data_enabled |-> <<"rda_scan_and_data_flags", 16>>, sdf_time_series_data_recording_enabled |-> <<"rda_scan_and_data_flags", 32>>,
  alarm_tower_utilities |-> <<"rda_alarm_summary", 1>>, alarm_pedestal |-> <<"rda_alarm_summary", 2>>, alarm_transmitter |-> <<"rda_alarm_summary", 4>>,
  alarm_receiver |-> <<"rda_alarm_summary", 8>>, alarm_rda_control |-> <<"rda_alarm_summary", 16>>, alarm_communication |-> <<"rda_alarm_summary", 32>>,
  alarm_signal_processor |-> <<"rda_alarm_summary", 64>>]

(* whole-word accessors with their own rule; values are integers (booleans 0/1) *)
Bool(b) == IF b THEN 1 ELSE 0
Signed(raw) == IF raw >= 32768 THEN raw - 65536 ELSE raw
ClutterSegments(raw) == {i \in 1..5 : HasBit(raw, Pow2(i))}
Whole(acc, raw) ==
    CASE acc = "alarm_none" -> Bool(raw = 0)
      [] acc = "horizontal_reflectivity_calibration_correction_x100" -> raw
      [] acc = "rda_build_number_x100" -> IF raw > 200 THEN raw ELSE raw * 10
      [] acc = "vcp_present" -> Bool(raw # 0)
      [] acc = "vcp_number" -> IF Signed(raw) < 0 THEN -Signed(raw) ELSE Signed(raw)      \* magnitude
      [] acc = "vcp_local" -> Bool(Signed(raw) < 0)
      [] acc = "vcp_remote" -> Bool(Signed(raw) > 0)
      [] acc = "clutter_kind" -> IF raw = 0 THEN 0 ELSE IF raw = 1 THEN 1 ELSE 2              \* Disabled / Enabled / segments
      [] acc = "clutter_segments_mask" -> IF raw < 2 THEN 0 ELSE (raw \div 2) % 32            \* bit i-1 set <=> segment i listed
      [] OTHER -> -999
WholeAcc == {"alarm_none", "horizontal_reflectivity_calibration_correction_x100", "rda_build_number_x100", "vcp_present", "vcp_number",
             "vcp_local", "vcp_remote", "clutter_kind", "clutter_segments_mask"}

Expected(acc, raw) == IF acc \in DOMAIN Flags THEN Bool(HasBit(raw, Flags[acc][2])) ELSE Whole(acc, raw)

(* alarm table contract *)
AlarmDefined(code) == code \in 0..800

ASSUME \A acc \in DOMAIN Codes : CodeField(acc) \in Names(RdaL)
ASSUME \A acc \in DOMAIN Flags : Flags[acc][1] \in Names(RdaL)
(* distinct documented codes have distinct meanings (the two documented spares excepted) *)
ASSUME \A acc \in DOMAIN Codes : \A a, b \in DOMAIN Codes[acc] : (a # b /\ Codes[acc][a] # "Spare") => Codes[acc][a] # Codes[acc][b]
(* flags of one word use distinct single bits *)
ASSUME \A a, b \in DOMAIN Flags : (a # b /\ Flags[a][1] = Flags[b][1]) => Flags[a][2] # Flags[b][2]
ASSUME \A a \in DOMAIN Flags : \E n \in 0..15 : Flags[a][2] = Pow2(n)
=============================================================================
