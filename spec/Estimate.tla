------------------------------ MODULE Estimate ------------------------------
(***************************************************************************)
(* L4 -- nexrad-data/src/aws/realtime/{get_elevation_from_chunk,           *)
(* estimate_next_chunk_time,chunk_timing_stats}.rs.                        *)
(*                                                                         *)
(* A VCP cut is [hr, wf, ch]: half-degree azimuth resolution flag, waveform *)
(* code (1 = contiguous surveillance), channel configuration code (0 =     *)
(* constant phase).  Chunk 1 is metadata; a half-degree cut spans 6 chunks, *)
(* any other cut 3.  Timing history is a rolling window of the last Window *)
(* samples <<duration ms, attempts>> per characteristics key.              *)
(***************************************************************************)
EXTENDS Integers, Sequences, FiniteSets, TLC

CONSTANTS Window,      \* 10 in the code (MAX_TIMING_SAMPLES)
          LastSeq      \* 55

Span(c) == IF c.hr THEN 6 ELSE 3

(* get_elevation_from_chunk as the cumulative walk it is: index of the cut, 0 for none *)
RECURSIVE Walk(_, _, _, _)
Walk(cuts, j, count, s) == IF j > Len(cuts) THEN 0
                           ELSE IF s <= count + Span(cuts[j]) THEN j
                           ELSE Walk(cuts, j + 1, count + Span(cuts[j]), s)
CutOf(cuts, s) == IF s = 1 THEN 0 ELSE Walk(cuts, 1, 1, s)

(* declarative: the cut whose chunk interval contains s *)
RECURSIVE SumSpan(_, _)
SumSpan(cuts, j) == IF j = 0 THEN 0 ELSE SumSpan(cuts, j - 1) + Span(cuts[j])
CutOfDecl(cuts, s) == IF \E j \in 1..Len(cuts) : 1 + SumSpan(cuts, j - 1) < s /\ s <= 1 + SumSpan(cuts, j)
                        THEN CHOOSE j \in 1..Len(cuts) : 1 + SumSpan(cuts, j - 1) < s /\ s <= 1 + SumSpan(cuts, j)
                        ELSE 0

TypeOfSeq(s) == IF s = 1 THEN "S" ELSE IF s = LastSeq THEN "E" ELSE "I"
Key(t, wf, ch) == <<t, wf, ch>>

DefaultMs(c) == IF c.wf = 1 THEN 11000 ELSE IF c.ch = 0 THEN 7000 ELSE 4000

RECURSIVE SumDur(_)
SumDur(w) == IF w = <<>> THEN 0 ELSE Head(w)[1] + SumDur(Tail(w))
RECURSIVE SumAtt(_)
SumAtt(w) == IF w = <<>> THEN 0 ELSE Head(w)[2] + SumAtt(Tail(w))
(* i64 division truncates toward zero *)
TruncDiv(a, b) == IF a >= 0 THEN a \div b ELSE -((-a) \div b)

HistoryMs(w) == TruncDiv(SumDur(w), Len(w)) + ((SumAtt(w) \div Len(w)) - 1) * 1000

NoEstimate == -999999999
(* offset in ms from the previous chunk's upload time, or NoEstimate *)
EstimateMs(prevSeq, cuts, win) ==
    IF prevSeq \notin 1..LastSeq THEN NoEstimate
    ELSE IF prevSeq = LastSeq THEN 10000
    ELSE LET nx == prevSeq + 1
             j == CutOf(cuts, nx)
         IN IF j = 0 THEN NoEstimate
            ELSE LET k == Key(TypeOfSeq(nx), cuts[j].wf, cuts[j].ch)
                 IN IF k \in DOMAIN win /\ win[k] # <<>> THEN HistoryMs(win[k]) ELSE DefaultMs(cuts[j])

-----------------------------------------------------------------------------
(* the rolling window as a state machine *)
VARIABLES win,     \* key -> window (sequence of samples, newest last)
          all      \* key -> complete history (history variable)
evars == <<win, all>>

EInit == win = <<>> /\ all = <<>>

Upd(f, k, v) == [x \in (DOMAIN f) \cup {k} |-> IF x = k THEN v ELSE f[x]]
Get(f, k) == IF k \in DOMAIN f THEN f[k] ELSE <<>>

AddTiming(k, dur, att) ==
    /\ LET pushed == Append(Get(win, k), <<dur, att>>)
       IN win' = Upd(win, k, IF Len(pushed) > Window THEN Tail(pushed) ELSE pushed)
    /\ all' = Upd(all, k, Append(Get(all, k), <<dur, att>>))

LastN(s, n) == IF Len(s) <= n THEN s ELSE SubSeq(s, Len(s) - n + 1, Len(s))
WindowIsSuffix == \A k \in DOMAIN win : win[k] = LastN(all[k], Window)
=============================================================================
