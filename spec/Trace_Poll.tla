---------------------------- MODULE Trace_Poll ----------------------------
(* Mechanism T for Poll: one polling session of the REAL poll_chunks against the loop-back S3
   simulator, recorded on one single-threaded runtime (program order):
     init {vol, seq, full}           bucket at start (newest chunk, number of full volumes behind it)
     probe                           a listing of the initial volume search (max-keys = 1)
     upload {vol, seq}               the simulator made the next chunk visible
     list {vol, n}                   a volume listing (max-keys = 100) and how many chunks it returned
     get {vol, seq, status}          a chunk download and its HTTP status
     deliver {vol, seq, data_ok, id_ok}   the consumer received a chunk (payload/label identical to the upload?)
     stop / drop                     the consumer sent the stop signal / dropped its receiver
     return {ok}                     poll_chunks returned
   With Requests = TRUE every event is matched by the corresponding action of Poll.tla (the poller's
   internal loop-top and successor steps are silent).  With Requests = FALSE the recording has been
   projected to the property-level events (init, upload, deliver, stop, drop, return) and every
   request action is a silent step TLC infers.
   With Slack = TRUE (only meaningful with Requests = FALSE, budgets set out of reach) the retry budget
   is not fixed either: C18 says "within the retry budget" without naming it, and quantifies over chunks
   that become visible after 0, 1 or 2 polling attempts -- so giving up is allowed at any failed attempt
   from the third on (SlackGiveUp), never earlier.  This is the weakest, property-only reading; a
   recording it rejects violates the statement of C18 whatever the shape of the implementation.
   Acceptance: the furthest line reached (TLCSet register 7) is the end of the recording. *)
EXTENDS Poll, Json, IOUtils
CONSTANTS Requests, Slack

Rec == ndJsonDeserialize(IOEnv.TRACE)
VARIABLE l
tvars == <<vars, l>>
ASSUME TLCSet(7, 0)

Is(e) == l <= Len(Rec) /\ Rec[l].ev = e
Adv == l' = l + 1

TInit == /\ Rec[1].ev = "init" /\ l = 2
         /\ IF Rec[1].seq = 0
              THEN /\ up = NoPos /\ vis = [v \in 1..MaxVol |-> 0]
                   /\ uploads = 0 /\ pc = "search" /\ latestVol = 0 /\ target = NoPos /\ att = 0 /\ prev = NoPos
                   /\ cons = "alive" /\ stop = "no" /\ faults = 0 /\ result = "running" /\ why = "" /\ hist = <<>> /\ histAtStop = 0 /\ window = {}
              ELSE InitWith(Rec[1].vol, Rec[1].seq, Rec[1].full)

EvProbe == Is("probe") /\ pc = "search" /\ Adv /\ UNCHANGED vars
EvUpload == Is("upload") /\ Upload /\ up' = <<Rec[l].vol, Rec[l].seq>> /\ Adv
EvStop == Is("stop") /\ CStop /\ Adv
EvDrop == Is("drop") /\ CDrop /\ Adv
EvList == /\ Is("list") /\ Adv
          /\ \/ pc = "listLatest" /\ PListLatest /\ Rec[l].vol = latestVol /\ Rec[l].n = vis[latestVol]
             \/ pc = "listNext" /\ PListNext /\ Rec[l].vol = SuccVol(prev[1]) /\ Rec[l].n = vis[SuccVol(prev[1])]
EvGet == /\ Is("get") /\ Adv
         /\ LET ok == Rec[l].status = 200
                key == <<Rec[l].vol, Rec[l].seq>>
            IN \/ pc = "getLatest" /\ key = target /\ PGetLatest(ok)
               \/ pc = "getMeta" /\ key = <<prev[1], 1>> /\ PGetMeta(ok)
               \/ pc = "get" /\ key = target /\ PGet(ok)
EvDeliver == /\ Is("deliver") /\ Adv
             /\ (PDeliverLatest \/ PDeliver)
             /\ hist' # hist /\ hist'[Len(hist')] = <<Rec[l].vol, Rec[l].seq>>
             /\ Rec[l].data_ok /\ Rec[l].id_ok
(* statistics events belong to PollStats.tla (growth); they are skipped here *)
EvStat == Is("stat") /\ Adv /\ UNCHANGED vars
EvReturn == /\ Is("return") /\ result # "running" /\ (Rec[l].ok <=> result = "ok") /\ Adv /\ UNCHANGED vars

SilentAlways == (PLoopTop \/ PNext \/ (PSearch /\ ~Is("probe"))) /\ UNCHANGED l
(* a failed send is not an event: the poller gives up because the consumer is gone *)
SilentSendFail == cons = "dropped" /\ (PDeliverLatest \/ PDeliver) /\ UNCHANGED l
(* Projected validation (Requests = FALSE).  The recording keeps one opaque {ev:"req", fault} tick per
   request the poller issued (fault = the simulator injected a transient failure on it) but not WHICH
   request it was.  A request that SUCCEEDS given the bucket state is timing-independent and may be
   inferred anywhere (silent); a FAILED attempt is an observation of the bucket at that instant and
   must consume a tick (a fault tick if the object was in fact visible).  Extra ticks may stutter. *)
NextVolEmpty == vis[SuccVol(prev[1])] = 0
SilentSuccess == /\ ~Requests
                 /\ \/ (PListLatest /\ vis[latestVol] > 0) \/ PGetLatest(TRUE) \/ PGetMeta(TRUE) \/ PGet(TRUE)
                    \/ (pc = "listNext" /\ ~NextVolEmpty /\ PListNext)
                 /\ UNCHANGED l
EvReqFail == /\ ~Requests /\ Is("req") /\ Adv
             /\ \/ (pc = "listLatest" /\ vis[latestVol] = 0 /\ PListLatest)
                \/ (pc = "listNext" /\ NextVolEmpty /\ PListNext)
                \/ (pc = "getLatest" /\ (Visible(target) => Rec[l].fault) /\ PGetLatest(FALSE))
                \/ (pc = "getMeta" /\ Rec[l].fault /\ PGetMeta(FALSE))
                \/ (pc = "get" /\ (Visible(target) => Rec[l].fault) /\ PGet(FALSE))
EvReqStutter == ~Requests /\ Is("req") /\ Adv /\ UNCHANGED vars
MinAttempts == 3
SlackGiveUp == /\ Slack /\ ~Requests /\ Is("req") /\ Adv
               /\ result = "running" /\ att + 1 >= MinAttempts
               /\ \/ pc = "listNext" /\ NextVolEmpty
                  \/ pc = "get" /\ (Visible(target) => Rec[l].fault)
               /\ att' = att + 1 /\ Err("budget")
               /\ UNCHANGED <<env, latestVol, target, prev, cons, stop, faults, hist, histAtStop, window>>
(* C18 asks for "a chunk of the next volume in rotation" after an end chunk; that the code continues at the LATEST chunk
   listed there (NextVolumeTakesLatest) is its choice, not the statement's: under the property reading any visible chunk
   of the next volume may become the target *)
SlackListNext == /\ Slack /\ ~Requests /\ pc = "listNext" /\ result = "running" /\ ~NextVolEmpty
                 /\ \E s \in 1..vis[SuccVol(prev[1])] : target' = <<SuccVol(prev[1]), s>>
                 /\ pc' = "get" /\ att' = 0
                 /\ UNCHANGED <<env, latestVol, prev, cons, stop, faults, result, why, hist, histAtStop, window, l>>
SilentRequests == SilentSuccess \/ EvReqFail \/ EvReqStutter \/ SlackGiveUp \/ SlackListNext

TNext == EvStat \/ EvProbe \/ EvUpload \/ EvStop \/ EvDrop \/ (Requests /\ (EvList \/ EvGet)) \/ EvDeliver \/ EvReturn \/ SilentAlways \/ SilentSendFail \/ SilentRequests
TSpec == TInit /\ [][TNext]_tvars

Track == IF l > TLCGet(7) THEN TLCSet(7, l) ELSE TRUE
Kind(e) == IF e.ev \in {"list", "get", "probe"} THEN "request/" \o e.ev ELSE e.ev
Accept == IF TLCGet(7) = Len(Rec) + 1 THEN PrintT(<<"TRACE-CONSUMED", Len(Rec)>>)
          ELSE PrintT(<<"MISMATCH", "C18/" \o Kind(Rec[TLCGet(7)]), TLCGet(7)>>)
=============================================================================
