SPECIFICATION TSpec
CONSTANTS
  MaxVol = 999
  LastSeq = 55
CHECK_DEADLOCK FALSE
