SPECIFICATION MSpec
CONSTANTS
  Window = 10
  LastSeq = 55
  MaxOps = 0
  Durs = {0}
  Atts = {1}
  MaxCuts = 3
CHECK_DEADLOCK FALSE
