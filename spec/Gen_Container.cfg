INIT GInit
NEXT MNext
CONSTANT MaxArb = 0
CHECK_DEADLOCK FALSE
