---------------------------- MODULE MC_DateTime ----------------------------
(* Walks all 65,535 ICD day counts: the closed-form civil conversion agrees with a day-by-day
   calendar walk, its inverse round-trips, and Instant is strictly increasing. *)
EXTENDS DateTime, TLC
VARIABLES d, civil
Init == d = 1 /\ civil = <<1970, 1, 1>>
Next == d < 65535 /\ d' = d + 1 /\ civil' = NextCivil(civil)
Spec == Init /\ [][Next]_<<d, civil>>
ClosedFormAgrees == CivilFromDays(d - 1) = civil
InverseAgrees == DaysFromCivil(civil[1], civil[2], civil[3]) = d - 1 /\ ValidDate(civil[1], civil[2], civil[3])
Monotone == /\ Before(Instant(d, MsPerDay - 1), Instant(d + 1, 0))
            /\ Before(Instant(d, 0), Instant(d, 1))
            /\ Before(InstantMin(d, 1439), InstantMin(d + 1, 0))
EndsIn2149 == d = 65535 => civil = <<2149, 6, 5>>
=============================================================================
