SPECIFICATION TSpec
CONSTANT NAz = 360
INVARIANT NeverPanics
CHECK_DEADLOCK FALSE
