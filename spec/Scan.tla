-------------------------------- MODULE Scan --------------------------------
(***************************************************************************)
(* L3 -- nexrad-data/src/volume/file.rs File::scan: the volume-to-scan     *)
(* pipeline.  A volume is a sequence of LDM records, each a sequence of    *)
(* message symbols                                                         *)
(*    [k |-> "R", el, vol, id]   type-31 radial: elevation number, VCP      *)
(*                               number of its VOL block (0 = no VOL       *)
(*                               block), unique tag                         *)
(*    [k |-> "M"]                status / VCP / any other metadata frame    *)
(* Per record: sniff "BZ" -> decompress -> frame (Container, Framing);      *)
(* per message: the first VOL block latches the coverage pattern, every    *)
(* radial is appended to the accumulator; then Sweep's grouping machine    *)
(* runs on the accumulator; a volume without any VOL block is an error.    *)
(***************************************************************************)
EXTENDS Sweep

VARIABLES recs,     \* records not yet opened
          msgs,     \* messages of the open record not yet consumed
          vcp,      \* latched coverage pattern number, 0 = none yet
          acc,      \* radials accumulated so far
          stage,    \* "records" | "group" | "done"
          result    \* "run" | "ok" | "err"
scvars == <<recs, msgs, vcp, acc, stage, result>>
allvars == <<vars, scvars>>

RECURSIVE FlatRecs(_)
FlatRecs(rs) == IF rs = <<>> THEN <<>> ELSE Head(rs) \o FlatRecs(Tail(rs))
Radials(ms) == SelectSeq(ms, LAMBDA m : m.k = "R")
AsRadial(m) == [el |-> m.el, id |-> m.id]
RadialSeq(ms) == [j \in 1..Len(Radials(ms)) |-> AsRadial(Radials(ms)[j])]
FirstVol(ms) == LET withVol == SelectSeq(ms, LAMBDA m : m.k = "R" /\ m.vol # 0) IN IF withVol = <<>> THEN 0 ELSE withVol[1].vol

ScInit(volume) == /\ recs = volume /\ msgs = <<>> /\ vcp = 0 /\ acc = <<>> /\ stage = "records" /\ result = "run"
                  /\ in = <<>> /\ i = 1 /\ cur = <<>> /\ curEl = None /\ out = <<>> /\ pc = "done"
ScReset(volume) == /\ recs' = volume /\ msgs' = <<>> /\ vcp' = 0 /\ acc' = <<>> /\ stage' = "records" /\ result' = "run"
                   /\ in' = <<>> /\ i' = 1 /\ cur' = <<>> /\ curEl' = None /\ out' = <<>> /\ pc' = "done"

NextRecord == /\ stage = "records" /\ msgs = <<>> /\ recs # <<>>
              /\ msgs' = Head(recs) /\ recs' = Tail(recs)
              /\ UNCHANGED <<vcp, acc, stage, result, vars>>

TakeMessage == /\ stage = "records" /\ msgs # <<>>
               /\ LET m == Head(msgs) IN
                  IF m.k = "R"
                    THEN /\ vcp' = IF vcp = 0 /\ m.vol # 0 THEN m.vol ELSE vcp      \* first VOL block latches
                         /\ acc' = Append(acc, AsRadial(m))
                    ELSE UNCHANGED <<vcp, acc>>                                     \* metadata never contributes
               /\ msgs' = Tail(msgs)
               /\ UNCHANGED <<recs, stage, result, vars>>

StartGrouping == /\ stage = "records" /\ msgs = <<>> /\ recs = <<>>
                 /\ stage' = "group"
                 /\ in' = acc /\ i' = 1 /\ cur' = <<>> /\ curEl' = None /\ out' = <<>> /\ pc' = "loop"
                 /\ UNCHANGED <<recs, msgs, vcp, acc, result>>

Group == stage = "group" /\ pc = "loop" /\ (Push \/ Flush) /\ UNCHANGED scvars

Finish == /\ stage = "group" /\ pc = "done"
          /\ stage' = "done" /\ result' = IF vcp = 0 THEN "err" ELSE "ok"
          /\ UNCHANGED <<recs, msgs, vcp, acc, vars>>

ScNext == NextRecord \/ TakeMessage \/ StartGrouping \/ Group \/ Finish

(* properties at the level of the whole volume `vol0` *)
Conserves(vol0) == stage = "done" =>
    /\ Flat(out) = RadialSeq(FlatRecs(vol0))                       \* none lost, duplicated, reordered
    /\ out = MaximalRuns(RadialSeq(FlatRecs(vol0)))                \* maximal runs incl. the final one
    /\ (result = "ok" <=> FirstVol(FlatRecs(vol0)) # 0)
    /\ (result = "ok" => vcp = FirstVol(FlatRecs(vol0)))
AccInv(vol0) == stage = "records" => acc = RadialSeq(SubSeq(FlatRecs(vol0), 1, Len(FlatRecs(vol0)) - Len(msgs) - Len(FlatRecs(recs))))
ScTerminates == <>(stage = "done")
=============================================================================
