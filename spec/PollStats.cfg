SPECIFICATION StSpec
CONSTANTS
  MaxVol = 3
  LastSeq = 3
  GetBudget = 2
  ListBudget = 2
  MaxFaults = 1
  MaxUploads = 6
INVARIANTS OnePerDelivery AttemptsInBudget TimingsEvery11
CHECK_DEADLOCK FALSE
