SPECIFICATION MSpec
CONSTANT MaxArb = 5
INVARIANTS InBounds Contiguous Progress Tiles AbstractAgrees
PROPERTY WTerminates
CHECK_DEADLOCK FALSE
