-------------------------------- MODULE Poll --------------------------------
(***************************************************************************)
(* L4 -- real-time polling, nexrad-data/src/aws/realtime/poll_chunks.rs.   *)
(*                                                                         *)
(* Processes: Uploader (makes the chunks of the rotating volumes visible,  *)
(* one by one, in successor order), Poller (every await of poll_chunks is   *)
(* an action), Consumer (stop signal, dropping the receiver), a transient  *)
(* fault injector.  The bucket is vis[v] = number of chunks 1..vis[v] of    *)
(* the current generation of directory v that are visible.                 *)
(*                                                                         *)
(* Named deviations of the code from an idealised design:                  *)
(*   NextVolumeTakesLatest  after an end chunk the poller lists the next    *)
(*                          volume and continues at the LATEST chunk listed *)
(*                          there (not necessarily chunk 1)                 *)
(*   ListFaultReadAsEmpty   a failed listing is read as an empty listing    *)
(* Environment assumption (as in the statements of C15/C18): directories    *)
(* ahead of the newest one are empty; uploads are frozen during the initial *)
(* volume search (PSearch is atomic; the search itself is Search.tla).      *)
(***************************************************************************)
EXTENDS Integers, Sequences, FiniteSets, TLC

CONSTANTS MaxVol, LastSeq, GetBudget, ListBudget, MaxFaults, MaxUploads

VARIABLES vis,        \* [1..MaxVol -> 0..LastSeq]
          up,         \* <<vol, seq>> of the newest uploaded chunk, <<0, 0>> = nothing yet
          uploads,    \* uploads performed so far (bounds the model)
          pc, latestVol, target, att, prev,
          cons,       \* "alive" | "dropped"
          stop,       \* "no" | "sent" | "seen"
          faults, result, why,
          hist, histAtStop, window     \* history variables
vars == <<vis, up, uploads, pc, latestVol, target, att, prev, cons, stop, faults, result, why, hist, histAtStop, window>>
view == <<vis, up, uploads, pc, latestVol, target, att, prev, cons, stop, faults, result, why, Len(hist), histAtStop>>

SuccVol(v) == IF v + 1 > MaxVol THEN 1 ELSE v + 1
SuccPos(p) == IF p[2] < LastSeq THEN <<p[1], p[2] + 1>> ELSE <<SuccVol(p[1]), 1>>
NoPos == <<0, 0>>
Newest == up                                   \* the newest chunk of the bucket

Err(reason) == result' = "err" /\ why' = reason /\ pc' = "done"

(* ------------------------------ environment ------------------------------ *)
Upload == /\ uploads < MaxUploads /\ result = "running" /\ pc # "search"
          /\ LET nx == IF up = NoPos THEN <<1, 1>> ELSE SuccPos(up) IN
             /\ vis' = [vis EXCEPT ![nx[1]] = nx[2], ![SuccVol(nx[1])] = 0]      \* EnvAheadIsEmpty: the directory ahead of the newest is empty
             /\ up' = nx
          /\ uploads' = uploads + 1
          /\ window' = IF pc = "listLatest" THEN window \cup {IF up = NoPos THEN <<1, 1>> ELSE SuccPos(up)} ELSE window
          /\ UNCHANGED <<pc, latestVol, target, att, prev, cons, stop, faults, result, why, hist, histAtStop>>

CStop == /\ stop = "no" /\ result = "running"
         /\ stop' = "sent" /\ histAtStop' = Len(hist)
         /\ UNCHANGED <<vis, up, uploads, pc, latestVol, target, att, prev, cons, faults, result, why, hist, window>>
CDrop == /\ cons = "alive" /\ result = "running"
         /\ cons' = "dropped"
         /\ UNCHANGED <<vis, up, uploads, pc, latestVol, target, att, prev, stop, faults, result, why, hist, histAtStop, window>>

(* -------------------------------- poller --------------------------------- *)
env == <<vis, up, uploads>>

PSearch == /\ pc = "search" /\ result = "running"
           /\ IF up = NoPos THEN Err("startup") /\ UNCHANGED <<latestVol, window>>
              ELSE latestVol' = up[1] /\ pc' = "listLatest" /\ window' = {up} /\ UNCHANGED <<result, why>>
           /\ UNCHANGED <<env, target, att, prev, cons, stop, faults, hist, histAtStop>>

PListLatest == /\ pc = "listLatest" /\ result = "running"
               /\ IF vis[latestVol] = 0 THEN Err("startup") /\ UNCHANGED target
                  ELSE target' = <<latestVol, vis[latestVol]>> /\ pc' = "getLatest" /\ UNCHANGED <<result, why>>
               /\ UNCHANGED <<env, latestVol, att, prev, cons, stop, faults, hist, histAtStop, window>>

Visible(p) == p[2] >= 1 /\ p[2] <= vis[p[1]]

(* the single, un-retried GET of the newest chunk (ok) or its transient failure (fault) *)
PGetLatest(ok) == /\ pc = "getLatest" /\ result = "running"
                  /\ IF ok THEN Visible(target) /\ pc' = "deliverLatest" /\ UNCHANGED <<result, why, faults>>
                     ELSE /\ (Visible(target) => faults < MaxFaults)
                          /\ faults' = IF Visible(target) THEN faults + 1 ELSE faults
                          /\ Err("startup")
                  /\ UNCHANGED <<env, latestVol, target, att, prev, cons, stop, hist, histAtStop, window>>

Send(next) == IF cons = "alive" THEN /\ hist' = Append(hist, target) /\ prev' = target /\ pc' = next /\ UNCHANGED <<result, why>>
              ELSE Err("consumer") /\ UNCHANGED <<hist, prev>>

PDeliverLatest == /\ pc = "deliverLatest" /\ result = "running"
                  /\ Send("getMeta")
                  /\ UNCHANGED <<env, latestVol, target, att, cons, stop, faults, histAtStop, window>>

(* chunk 1 of the same volume is fetched again for the VCP *)
PGetMeta(ok) == /\ pc = "getMeta" /\ result = "running"
                /\ IF ok THEN Visible(<<prev[1], 1>>) /\ pc' = "loopTop" /\ UNCHANGED <<result, why, faults>>
                   ELSE /\ faults < MaxFaults /\ faults' = faults + 1 /\ Err("startup")
                /\ UNCHANGED <<env, latestVol, target, att, prev, cons, stop, hist, histAtStop, window>>

PLoopTop == /\ pc = "loopTop" /\ result = "running"
            /\ IF stop = "sent" THEN stop' = "seen" /\ result' = "ok" /\ why' = "stopped" /\ pc' = "done"
               ELSE pc' = "next" /\ UNCHANGED <<stop, result, why>>
            /\ UNCHANGED <<env, latestVol, target, att, prev, cons, faults, hist, histAtStop, window>>

PNext == /\ pc = "next" /\ result = "running"
         /\ IF prev[2] < LastSeq THEN target' = <<prev[1], prev[2] + 1>> /\ pc' = "get" ELSE pc' = "listNext" /\ UNCHANGED target
         /\ att' = 0
         /\ UNCHANGED <<env, latestVol, prev, cons, stop, faults, result, why, hist, histAtStop, window>>

(* NextVolumeTakesLatest *)
PListNext == /\ pc = "listNext" /\ result = "running"
             /\ LET v == SuccVol(prev[1]) IN
                IF vis[v] > 0 THEN target' = <<v, vis[v]>> /\ pc' = "get" /\ att' = 0 /\ UNCHANGED <<result, why>>
                ELSE IF att + 1 = ListBudget THEN Err("budget") /\ att' = att + 1 /\ UNCHANGED target
                ELSE att' = att + 1 /\ UNCHANGED <<target, pc, result, why>>
             /\ UNCHANGED <<env, latestVol, prev, cons, stop, faults, hist, histAtStop, window>>

PGet(ok) == /\ pc = "get" /\ result = "running"
            /\ IF ok THEN Visible(target) /\ pc' = "deliver" /\ UNCHANGED <<att, result, why, faults>>
               ELSE /\ (Visible(target) => faults < MaxFaults)
                    /\ faults' = IF Visible(target) THEN faults + 1 ELSE faults
                    /\ att' = att + 1
                    /\ IF att + 1 = GetBudget THEN Err("budget") ELSE UNCHANGED <<pc, result, why>>
            /\ UNCHANGED <<env, latestVol, target, prev, cons, stop, hist, histAtStop, window>>

PDeliver == /\ pc = "deliver" /\ result = "running"
            /\ Send("loopTop")
            /\ UNCHANGED <<env, latestVol, target, att, cons, stop, faults, histAtStop, window>>

PollerNext == PSearch \/ PListLatest \/ PGetLatest(TRUE) \/ PGetLatest(FALSE) \/ PDeliverLatest \/ PGetMeta(TRUE) \/ PGetMeta(FALSE)
              \/ PLoopTop \/ PNext \/ PListNext \/ PGet(TRUE) \/ PGet(FALSE) \/ PDeliver
Next == PollerNext \/ Upload \/ CStop \/ CDrop

InitWith(v0, s0, full) ==
    /\ up = <<v0, s0>>
    /\ vis = [v \in 1..MaxVol |-> IF v = v0 THEN s0 ELSE IF \E j \in 1..full : v = ((v0 - 1 - j + MaxVol * LastSeq) % MaxVol) + 1 THEN LastSeq ELSE 0]
    /\ uploads = 0 /\ pc = "search" /\ latestVol = 0 /\ target = NoPos /\ att = 0 /\ prev = NoPos
    /\ cons = "alive" /\ stop = "no" /\ faults = 0 /\ result = "running" /\ why = "" /\ hist = <<>> /\ histAtStop = 0 /\ window = {}
Init == \/ \E v0 \in 1..MaxVol, s0 \in 1..LastSeq, full \in 0..(MaxVol - 2) : InitWith(v0, s0, full)
        \/ /\ up = NoPos /\ vis = [v \in 1..MaxVol |-> 0]
           /\ uploads = 0 /\ pc = "search" /\ latestVol = 0 /\ target = NoPos /\ att = 0 /\ prev = NoPos
           /\ cons = "alive" /\ stop = "no" /\ faults = 0 /\ result = "running" /\ why = "" /\ hist = <<>> /\ histAtStop = 0 /\ window = {}
Spec == Init /\ [][Next]_vars /\ WF_vars(PollerNext)

(* ------------------------------- properties ------------------------------- *)
FirstIsNewestAtStart == hist # <<>> => hist[1] \in window
Advancing == \A j \in 1..(Len(hist) - 1) : LET a == hist[j]
                                               b == hist[j + 1]
                                           IN \/ (b[1] = a[1] /\ b[2] = a[2] + 1)
                                              \/ (a[2] = LastSeq /\ b[1] = SuccVol(a[1]))
NoRepeat == \A j, k \in DOMAIN hist : j # k => hist[j] # hist[k] \/ Len(hist) > MaxVol * LastSeq
OnlyUploaded == \A j \in DOMAIN hist : hist[j][2] >= 1 /\ hist[j][2] <= LastSeq /\ hist[j][1] \in 1..MaxVol
AtMostOneAfterStop == stop # "no" => Len(hist) <= histAtStop + 1
OkOnlyAfterStop == result = "ok" => stop = "seen"
ErrOnlyWhen == result = "err" => why \in {"budget", "consumer", "startup"}
ConsumerGone == (result = "err" /\ why = "consumer") => cons = "dropped"
CursorAfterSend == [][prev' # prev => hist' # hist /\ prev' = hist'[Len(hist')]]_vars
Termination == <>(result # "running")
=============================================================================
