---------------------------- MODULE Trace_Cfm ----------------------------
(* Mechanism T for Cfm.
     {bytes, out, date, minutes, map, segnums, aznums_ok}   a real decode of a driver-built body: the
        specification's machine runs on the BYTES (silent steps) and its map must equal the code's;
        segment numbers must be 0..n-1 and azimuth numbers 0..NAz-1.
     {big, nseg, out, got_nseg, numbering_ok, zones_equal}   large maps (up to 255 segments): summary only. *)
EXTENDS Cfm, Json, IOUtils
Rec == ndJsonDeserialize(IOEnv.TRACE)
VARIABLES l, loaded
tvars == <<cvars, l, loaded>>
Bad(sig) == PrintT(<<"MISMATCH", sig, l>>)
TInit == l = 1 /\ loaded = FALSE /\ bytes = <<>> /\ pos = 0 /\ pc = "done" /\ nseg = 0 /\ seg = 0 /\ az = 0 /\ out = <<>> /\ cur = <<>> /\ status = "ok"
IsBig == "big" \in DOMAIN Rec[l]
Load == ~loaded /\ l <= Len(Rec) /\ ~IsBig /\ CReset(Rec[l].bytes) /\ loaded' = TRUE /\ UNCHANGED l
Silent == loaded /\ CNext /\ UNCHANGED <<l, loaded>>
Compare == /\ loaded /\ pc = "done"
           /\ LET e == Rec[l] IN
              IF e.out = "panic" THEN Bad("C13/decode/panic")
              ELSE IF status = "err" /\ e.out = "ok" THEN Bad("C13/decode/accepts_incomplete_body")
              ELSE IF status = "ok" /\ e.out = "err" THEN Bad("C13/decode/rejects_wellformed")
              ELSE IF status = "err" THEN TRUE
              ELSE /\ IF e.map = out THEN TRUE ELSE Bad("C13/structure")
                   /\ IF e.segnums = [k \in 1..Len(out) |-> k - 1] /\ e.aznums_ok THEN TRUE ELSE Bad("C13/numbering")
                   /\ IF e.date = U16Of(Field(CfmHeaderL, bytes, 0, "map_generation_date")) /\ e.minutes = U16Of(Field(CfmHeaderL, bytes, 0, "map_generation_time")) THEN TRUE ELSE Bad("C13/header")
           /\ loaded' = FALSE /\ l' = l + 1 /\ UNCHANGED cvars
Big == /\ ~loaded /\ l <= Len(Rec) /\ IsBig
       /\ LET e == Rec[l] IN
          IF e.out = "panic" THEN Bad("C13/decode/panic")
          ELSE IF e.out # "ok" THEN Bad("C13/decode/rejects_wellformed")
          ELSE IF e.got_nseg # e.nseg THEN Bad("C13/structure")
          ELSE IF ~e.numbering_ok THEN Bad("C13/numbering")
          ELSE IF ~e.zones_equal THEN Bad("C13/structure")
          ELSE TRUE
       /\ l' = l + 1 /\ UNCHANGED <<cvars, loaded>>
Consumed == ~loaded /\ l = Len(Rec) + 1 /\ PrintT(<<"TRACE-CONSUMED", Len(Rec)>>) /\ UNCHANGED tvars
TNext == Load \/ Silent \/ Compare \/ Big \/ Consumed
TSpec == TInit /\ [][TNext]_tvars
=============================================================================
