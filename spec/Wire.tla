-------------------------------- MODULE Wire --------------------------------
(***************************************************************************)
(* L0 -- bytes on the wire.  A byte string is a Seq(0..255).  Every ICD     *)
(* field is big-endian; multi-byte values are kept as BYTE TUPLES wherever  *)
(* the value is not needed for arithmetic (TLC integers are 32-bit signed   *)
(* and there are no reals: u32 and f32 fields travel as 4 bytes, floats as  *)
(* their IEEE bit pattern).  A layout is a sequence of <<name, width>>;     *)
(* offsets follow from the order.                                          *)
(***************************************************************************)
EXTENDS Integers, Sequences, FiniteSets

Byte == 0..255

U16Of(b) == b[1] * 256 + b[2]                      \* value of a 2-byte tuple
I16Of(b) == IF b[1] >= 128 THEN U16Of(b) - 65536 ELSE U16Of(b)
U16Bytes(v) == <<v \div 256, v % 256>>
(* a u32 that fits 31 bits, as 4 bytes *)
U32Bytes(v) == <<(v \div 16777216) % 256, (v \div 65536) % 256, (v \div 256) % 256, v % 256>>
U31Of(b) == ((b[1] * 256 + b[2]) * 256 + b[3]) * 256 + b[4]    \* only when b[1] < 128

RECURSIVE OffsetIn(_, _)
OffsetIn(layout, k) == IF k = 1 THEN 0 ELSE OffsetIn(layout, k - 1) + layout[k - 1][2]
SizeOf(layout) == OffsetIn(layout, Len(layout) + 1)
IndexOf(layout, name) == CHOOSE k \in DOMAIN layout : layout[k][1] = name
OffsetOf(layout, name) == OffsetIn(layout, IndexOf(layout, name))
WidthOf(layout, name) == layout[IndexOf(layout, name)][2]
Names(layout) == {layout[k][1] : k \in DOMAIN layout}

(* field value (byte tuple) at its layout offset, message starting at 0-based offset base *)
Field(layout, bytes, base, name) ==
    SubSeq(bytes, base + OffsetOf(layout, name) + 1, base + OffsetOf(layout, name) + WidthOf(layout, name))

(* decode: record name -> byte tuple; defined when the whole layout fits *)
Fits(layout, bytes, base) == base >= 0 /\ base + SizeOf(layout) <= Len(bytes)
DecodeBy(layout, bytes, base) == [nm \in Names(layout) |-> Field(layout, bytes, base, nm)]

(* encode a record name -> byte tuple in layout order *)
RECURSIVE EncodeFrom(_, _, _)
EncodeFrom(layout, rec, k) == IF k > Len(layout) THEN <<>> ELSE rec[layout[k][1]] \o EncodeFrom(layout, rec, k + 1)
EncodeBy(layout, rec) == EncodeFrom(layout, rec, 1)

Zeros(n) == [j \in 1..n |-> 0]
RECURSIVE Concat(_)
Concat(ss) == IF ss = <<>> THEN <<>> ELSE Head(ss) \o Concat(Tail(ss))

(* The reader.  A decoder pulls its bytes through `Read`, which may deliver any non-empty piece of what was asked
   for; Chunkings(b) is every way a reader can hand over the byte string b.  Every decode operator of this
   specification is a function of the byte string alone, so a conforming decoder returns the same value under
   every chunking (ChunkInvariance) -- the driver binds this by decoding half of all vectors through a reader that
   delivers 1..7 bytes per call. *)
RECURSIVE Chunkings(_)
Chunkings(b) == IF b = <<>> THEN {<<>>} ELSE UNION {{<<SubSeq(b, 1, n)>> \o c : c \in Chunkings(SubSeq(b, n + 1, Len(b)))} : n \in 1..Len(b)}
ChunkInvariance(b) == \A c \in Chunkings(b) : Concat(c) = b
=============================================================================
