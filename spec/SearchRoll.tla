----------------------------- MODULE SearchRoll -----------------------------
(***************************************************************************)
(* Growth beyond C15: the rotated search INTERLEAVED with the uploader.    *)
(* C15 (and Poll.tla's atomic PSearch) freeze the bucket during the        *)
(* search.  Here the uploader may open new volume directories between any  *)
(* two probes (Rollover: the empty directory after the newest becomes      *)
(* populated and newest; the bucket is not full, k < n).  What is promised *)
(* is a linearisation window:                                              *)
(*   ResultInWindow  the result is a directory that was THE newest at      *)
(*                   some moment between the first and the last probe      *)
(* TLC confirms it for every shape up to 16 directories with up to 4       *)
(* rollovers at arbitrary points (147,871 states), together with           *)
(* NeverNoneIfPopulated and termination.  This is what justifies Poll.tla  *)
(* treating the search as one atomic step followed by the window           *)
(* FirstIsNewestAtStart.  RolloverFull models the FULL rotation (the       *)
(* oldest directory is overwritten and becomes the newest).               *)
(***************************************************************************)
EXTENDS Search

CONSTANT MaxRolls
VARIABLES rolls, seenNewest     \* seenNewest: history of newest positions during the search
rvars == <<vars, rolls, seenNewest>>

RInit == Init /\ rolls = 0 /\ seenNewest = {Newest}
Rollover == /\ pc # "done" /\ k < n /\ rolls < MaxRolls
            /\ p' = (p + 1) % n /\ k' = k + 1 /\ rolls' = rolls + 1
            /\ seenNewest' = seenNewest \cup {(p + 1) % n}
            /\ UNCHANGED <<n, pc, first, low, high, nearest, nearestVal, queue, probes, result, hist>>
(* full rotation: the OLDEST directory is overwritten and becomes the newest.  Upload ranks of all other
   directories drop by one; the values the search has memorised are absolute times, so they drop with
   them (a memorised value that reaches 0 was read from the overwritten directory: older than everything,
   which is how NONE compares too). *)
Dec(v) == IF v > 0 THEN v - 1 ELSE 0
RolloverFull == /\ pc # "done" /\ k = n /\ n > 1 /\ rolls < MaxRolls
                /\ p' = (p + 1) % n /\ rolls' = rolls + 1
                /\ first' = Dec(first) /\ nearestVal' = Dec(nearestVal)
                /\ seenNewest' = seenNewest \cup {(p + 1) % n}
                /\ UNCHANGED <<n, k, pc, low, high, nearest, queue, probes, result, hist>>
RStep == Next /\ UNCHANGED <<rolls, seenNewest>>
RNext == RStep \/ Rollover \/ RolloverFull
RSpec == RInit /\ [][RNext]_rvars /\ WF_rvars(RStep)

ResultInWindow == pc = "done" => result \in seenNewest
ResultWasPopulated == pc = "done" => (result = NoIdx \/ Val(result) # NONE)
NeverNoneIfPopulated == pc = "done" => (NoIdx \in seenNewest \/ result # NoIdx)
RTerminates == <>(pc = "done")
=============================================================================
