----------------------------- MODULE MC_Total -----------------------------
(***************************************************************************)
(* C04 -- design-level totality of type-31 decoding.  The malformed-input  *)
(* CLASS SPACE is spelled out here: starting from well-formed messages,    *)
(* one fault (two in the thorough configuration) is applied:               *)
(*   count    data_block_count := 0 | 1 | 11 | 255 | 65535                 *)
(*   pointer  pointer j := message start | inside the header | the pointer *)
(*            table | one byte into its own block (overlap) | another      *)
(*            block (backwards / duplicate) | last byte | end | 2^31-1 |   *)
(*            2^32-1                                                       *)
(*   name     block name := unknown ASCII | non-UTF-8 | lower case         *)
(*   name-near  "SW" + TAB/LF/VT/FF/CR, own name with last char TAB / NUL  *)
(*   gates    number_of_data_moment_gates := 65535                         *)
(*   word     data_word_size := 0 | 7 | 9 | 255                            *)
(*   gates+word  gates in {65535, 40000, 4096} together with word 16 | 255 *)
(*            (the product exceeds 16 bits)                                 *)
(*   cut      truncation at every structural boundary and one byte around  *)
(*   size     (driver-side class, header level) message-header size field *)
(*            0 | 1 | 0x7FFF | 0x8000 | 0xFFFF x segment count/number      *)
(*            0 | 1 | 0x2000:0 | 0xFFFF:0xFFFF in front of every body kind *)
(* The decoder machine of Drd.tla must end "ok" or "err" (never "panic"),  *)
(* terminate, keep its position inside the input, and its allocation --    *)
(* the pointer table plus one gate buffer per block read -- stays below    *)
(* AllocBound.                                                             *)
(***************************************************************************)
EXTENDS Drd, SequencesExt, FiniteSetsExt, Json
CONSTANT Depth          \* 1 = single faults, 2 = pairs

VARIABLES cls, alloc
tvars == <<dvars, cls, alloc>>

Base1 == [hdr |-> MkHeader(3, 2), blocks |-> <<MkBlock("VOL", 1, 0, 8, 0), MkBlock("REF", 2, 3, 8, 0)>>, ptrs |-> <<1, 2>>]
Base2 == [hdr |-> MkHeader(4, 3), blocks |-> <<MkBlock("RAD", 1, 0, 8, 0), MkBlock("PHI", 2, 2, 16, 3), MkBlock("VEL", 3, 1, 8, 0)>>, ptrs |-> <<3, 1, 2>>]
Bases == {Base1, Base2}

SetBytes(bs, at, new) == [k \in 1..Len(bs) |-> IF k > at /\ k <= at + Len(new) THEN new[k - at] ELSE bs[k]]
CountOff == OffsetOf(DrdHeaderL, "data_block_count")
PtrOff(j) == SizeOf(DrdHeaderL) + 4 * (j - 1)

FaultsOf(mm) ==
    LET bs == EncodeDrd(mm)
        n == Len(mm.ptrs)
        L == Len(bs)
    IN  {<<"count", v, SetBytes(bs, CountOff, U16Bytes(v))>> : v \in {0, 1, 11, 255, 65535}}
   \cup {<<"pointer", j * 100 + t, SetBytes(bs, PtrOff(j),
              CASE t = 1 -> U32Bytes(0) [] t = 2 -> U32Bytes(5) [] t = 3 -> U32Bytes(SizeOf(DrdHeaderL))
                [] t = 4 -> U32Bytes(PtrValue(mm, j) + 1) [] t = 5 -> U32Bytes(PtrValue(mm, 1 + (j % n)))
                [] t = 6 -> U32Bytes(L - 1) [] t = 7 -> U32Bytes(L) [] t = 8 -> <<127, 255, 255, 255>> [] OTHER -> <<255, 255, 255, 255>>)>>
            : j \in 1..n, t \in 1..9}
   \cup {<<"name", j * 10 + t, SetBytes(bs, PtrValue(mm, j) + 1, CASE t = 1 -> <<88, 89, 90>> [] t = 2 -> <<255, 254, 253>> [] OTHER -> <<114, 101, 102>>)>>
            : j \in 1..n, t \in 1..3}
   (* near misses of a known name: "SW" followed by each ASCII white-space character other than the blank the ICD pads with (a name
      check that trims white space accepts them, a dispatch on the exact name does not), and the block's own name with its last
      character replaced by TAB or NUL *)
   \cup {<<"name-near", j * 100 + c, SetBytes(bs, PtrValue(mm, j) + 1, <<83, 87, c>>)>> : j \in 1..n, c \in {9, 10, 11, 12, 13}}
   \cup {<<"name-near", j * 100 + 50 + c, SetBytes(bs, PtrValue(mm, j) + 3, <<c>>)>> : j \in 1..n, c \in {9, 0}}
   \cup {<<"gates", j, SetBytes(bs, PtrValue(mm, j) + OffsetOf(GenL, "number_of_data_moment_gates"), <<255, 255>>)>> : j \in {x \in 1..n : mm.blocks[mm.ptrs[x]].p \in Moments}}
   \cup {<<"word", j * 1000 + w, SetBytes(bs, PtrValue(mm, j) + OffsetOf(GenL, "data_word_size"), <<w>>)>> : j \in {x \in 1..n : mm.blocks[mm.ptrs[x]].p \in Moments}, w \in {0, 7, 9, 255}}
   \cup {<<"gates+word", j * 1000 + w, SetBytes(SetBytes(bs, PtrValue(mm, j) + OffsetOf(GenL, "number_of_data_moment_gates"), g), PtrValue(mm, j) + OffsetOf(GenL, "data_word_size"), <<w>>)>>
            : j \in {x \in 1..n : mm.blocks[mm.ptrs[x]].p \in Moments}, w \in {16, 255}, g \in {<<255, 255>>, <<156, 64>>, <<16, 0>>}}
   \cup {<<"cut", c, SubSeq(bs, 1, c)>> : c \in ({0, 1, 31, 32, 33, PtrOff(n) + 3, PtrOff(n) + 4, L - 1} \cup UNION {{PtrValue(mm, j), PtrValue(mm, j) + 3, PtrValue(mm, j) + 4, PtrValue(mm, j) + 27, PtrValue(mm, j) + 28} : j \in 1..n}) \cap (0..L)}

(* a second fault applied to already faulty bytes: counts, gate/word extremes and cuts compose *)
Second(f) == LET bs == f[3] IN
    {<<f[1] \o "+count", f[2], SetBytes(bs, CountOff, U16Bytes(v))>> : v \in {IF Len(bs) >= 32 THEN 65535 ELSE 0}} \cup
    {<<f[1] \o "+cut", f[2] * 100 + c, SubSeq(bs, 1, c)>> : c \in {33, 40, Len(bs) - 1} \cap (0..Len(bs))}
Singles == UNION {FaultsOf(mm) : mm \in Bases}
Inputs == IF Depth = 1 THEN Singles ELSE Singles \cup UNION {{g \in Second(f) : Len(g[3]) >= 32 \/ g[1] = f[1] \o "+cut"} : f \in {x \in Singles : Len(x[3]) >= 34}}

(* allocation accounting: the pointer table is allocated before it is read; a gate buffer is
   allocated from the header's gate count and word size before the gates are read *)
MaxMsgAlloc == 65535 * 4 + 7 * 65535 * 31
AllocBound(len) == MaxMsgAlloc + 64 * len

TInit == \E f \in Inputs : cls = <<f[1], f[2]>> /\ DInit(f[3]) /\ alloc = 0
AStep == /\ DNext
         /\ alloc' = IF pc = "pointers" THEN alloc + 4 * U16Of(hdr["data_block_count"])
                     ELSE IF pc = "seek" /\ pi <= Len(ptrs) /\ ptrs[pi] <= Len(bytes) - 28
                            /\ NameOf(SubSeq(bytes, ptrs[pi] + 2, ptrs[pi] + 4)) \notin {"VOL", "ELV", "RAD"}
                          THEN alloc + U16Of(SubSeq(bytes, ptrs[pi] + 9, ptrs[pi] + 10)) * (bytes[ptrs[pi] + 20] \div 8)
                          ELSE alloc
         /\ UNCHANGED cls
TSpec == TInit /\ [][AStep]_tvars /\ WF_tvars(AStep)

Total == status \in {"run", "ok", "err"}
AllocBounded == alloc <= AllocBound(Len(bytes)) + MaxMsgAlloc * Len(ptrs)
Export == pc = "done" => PrintT("REPLAY " \o ToJson([class |-> cls[1], variant |-> cls[2], bytes |-> bytes, model |-> status]))
=============================================================================
