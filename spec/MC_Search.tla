---- MODULE MC_Search ----
EXTENDS Search
====
