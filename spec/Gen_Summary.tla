---- MODULE Gen_Summary ----
(* Mechanism G for Summary: every bounded message list with the summary the specification requires. *)
EXTENDS MC_Summary, Json, IOUtils, SequencesExt
Proj(g) == [ty |-> g.ty, el |-> g.el, first |-> g.first, last |-> g.last, count |-> g.count, st |-> g.st, et |-> g.et, cont |-> g.cont, dts |-> g.dts]
Vec(ms) == [msgs |-> [j \in DOMAIN ms |-> [k |-> ms[j].k, ty |-> ms[j].ty, el |-> ms[j].el, vcp |-> ms[j].vcp, tm |-> ms[j].tm, ps |-> SetToSeq(ms[j].ps)]],
            groups |-> [g \in DOMAIN ExpectedGroups(ms) |-> Proj(ExpectedGroups(ms)[g])],
            earliest |-> ExpectedEarliest(ms), latest |-> ExpectedLatest(ms), vcps |-> SetToSeq(ExpectedVcps(ms))]
ASSUME ndJsonSerialize(IOEnv.OUT, SetToSeq({Vec(Build(f)) : f \in Lists}))
GInit == SInit(<<>>)
====
