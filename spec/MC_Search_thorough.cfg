SPECIFICATION Spec
CONSTANT MaxN = 64
VIEW view
INVARIANTS TypeOK Correct CallBound
PROPERTIES NearestOnlyImproves
CHECK_DEADLOCK FALSE
