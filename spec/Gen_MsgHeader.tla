---- MODULE Gen_MsgHeader ----
(* Mechanism G: all 256 type codes x the six channel codes as 28-byte headers computed by TLC. *)
EXTENDS MsgHeader, Json, IOUtils, SequencesExt
VARIABLE x
Fill(k, w, salt) == [j \in 1..w |-> (salt * 11 + k * 17 + j * 7 + 5) % 256]
Hdr(t, ch) == LET base == [nm \in Names(MsgHeaderL) |-> Fill(IndexOf(MsgHeaderL, nm), WidthOf(MsgHeaderL, nm), t + ch)]
              IN [base EXCEPT !["message_type"] = <<t>>, !["redundant_channel"] = <<ch>>]
Vec(t, ch) == [bytes |-> EncodeBy(MsgHeaderL, Hdr(t, ch)), fields |-> Hdr(t, ch), type_name |-> TypeName(t), channel_name |-> ChannelTable[ch]]
ASSUME ndJsonSerialize(IOEnv.OUT, SetToSeq({Vec(t, ch) : t \in 0..255, ch \in DOMAIN ChannelTable}))
Init == x = 0
Next == x' = x
====
