---- MODULE Gen_Framing ----
(* Mechanism G for Framing: every bounded stream x cut class with the outcome the specification
   requires; the driver assembles the frames (type-31 bodies from the block descriptors). *)
EXTENDS MC_Framing, Json, IOUtils
Vec(st, a) == [syms |-> st, avail |-> a, total |-> Total(st), status |-> ExpectedStatus(st, a), n |-> ExpectedCount(st, a)]
ASSUME ndJsonSerialize(IOEnv.OUT, SetToSeq(UNION {{Vec(st, a) : a \in Cuts(st)} : st \in Streams}))
GInit == FInit(<<>>, 0)
====
