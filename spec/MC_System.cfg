SPECIFICATION SSpec
CONSTANTS
  MaxVol = 3
  LastSeq = 3
  GetBudget = 2
  ListBudget = 2
  MaxFaults = 1
  MaxUploads = 6
  RadialsPerChunk = 2
INVARIANTS EndToEnd TagsIncrease VolumeScans Advancing AtMostOneAfterStop
CHECK_DEADLOCK FALSE
