SPECIFICATION TSpec
CONSTANTS
  Elevs = {1}
  MaxLen = 1
CHECK_DEADLOCK FALSE
