-------------------------------- MODULE Cfm --------------------------------
(***************************************************************************)
(* L1 -- Clutter Filter Map (message type 15),                             *)
(* nexrad-decode/src/messages/clutter_filter_map*.                         *)
(* Body: Icd!CfmHeaderL (generation date, time in minutes, elevation       *)
(* segment count), then per elevation segment NAz azimuth segments, each   *)
(* a range-zone count followed by that many (op code, end range) zones.    *)
(* An abstract map is a sequence of segments, each a sequence of NAz zone  *)
(* lists, each zone <<op, end>>.  The decoder is the nested count-driven   *)
(* machine: ReadHeader, then one ReadAzimuth per azimuth segment; any      *)
(* earlier end of input is an error.                                       *)
(***************************************************************************)
EXTENDS Icd, TLC

CONSTANT NAz          \* 360 in the ICD and in the code

EncodeZones(zs) == Concat([k \in 1..Len(zs) |-> U16Bytes(zs[k][1]) \o U16Bytes(zs[k][2])])
EncodeAz(zs) == U16Bytes(Len(zs)) \o EncodeZones(zs)
EncodeSeg(seg) == Concat([a \in 1..Len(seg) |-> EncodeAz(seg[a])])
EncodeCfm(date, minutes, map) == U16Bytes(date) \o U16Bytes(minutes) \o U16Bytes(Len(map)) \o Concat([s \in 1..Len(map) |-> EncodeSeg(map[s])])

OpName(c) == IF c = 0 THEN "BypassFilter" ELSE IF c = 1 THEN "BypassMapInControl" ELSE IF c = 2 THEN "ForceFilter" ELSE "undocumented"

VARIABLES bytes, pos, pc, nseg, seg, az, out, cur, status
cvars == <<bytes, pos, pc, nseg, seg, az, out, cur, status>>

CReset(input) == /\ bytes' = input /\ pos' = 0 /\ pc' = "header" /\ nseg' = 0 /\ seg' = 0 /\ az' = 0 /\ out' = <<>> /\ cur' = <<>> /\ status' = "run"
CInit(input) == /\ bytes = input /\ pos = 0 /\ pc = "header" /\ nseg = 0 /\ seg = 0 /\ az = 0 /\ out = <<>> /\ cur = <<>> /\ status = "run"

CFail == status' = "err" /\ pc' = "done" /\ UNCHANGED <<bytes, pos, nseg, seg, az, out, cur>>

ReadHeader == /\ pc = "header"
              /\ IF Fits(CfmHeaderL, bytes, pos)
                   THEN /\ nseg' = U16Of(Field(CfmHeaderL, bytes, pos, "elevation_segment_count")) % 256    \* the count is a byte in the code
                        /\ pos' = pos + SizeOf(CfmHeaderL) /\ pc' = "az"
                        /\ UNCHANGED <<bytes, seg, az, out, cur, status>>
                   ELSE CFail

(* one azimuth segment: its zone count and all its zones; segments are numbered 0.., azimuths 0..NAz-1 *)
ReadAzimuth ==
    /\ pc = "az"
    /\ IF seg = nseg
         THEN /\ status' = "ok" /\ pc' = "done" /\ UNCHANGED <<bytes, pos, nseg, seg, az, out, cur>>
         ELSE IF pos + 2 > Len(bytes) THEN CFail
         ELSE LET n == U16Of(SubSeq(bytes, pos + 1, pos + 2))
                  zones == [k \in 1..n |-> <<U16Of(SubSeq(bytes, pos + 2 + 4 * (k - 1) + 1, pos + 2 + 4 * (k - 1) + 2)),
                                             U16Of(SubSeq(bytes, pos + 2 + 4 * (k - 1) + 3, pos + 2 + 4 * k))>>]
              IN IF pos + 2 + 4 * n > Len(bytes) THEN CFail
                 ELSE /\ pos' = pos + 2 + 4 * n
                      /\ IF az + 1 = NAz
                           THEN /\ out' = Append(out, Append(cur, zones)) /\ cur' = <<>> /\ az' = 0 /\ seg' = seg + 1
                           ELSE /\ cur' = Append(cur, zones) /\ az' = az + 1 /\ UNCHANGED <<out, seg>>
                      /\ UNCHANGED <<bytes, pc, nseg, status>>

CNext == ReadHeader \/ ReadAzimuth
Terminates == <>(pc = "done")
NeverPanics == status # "panic"
=============================================================================
