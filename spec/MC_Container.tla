---------------------------- MODULE MC_Container ----------------------------
(* (a) well-formed: every list of up to 3 records (payload sizes 0,1,2,5; either sign; raw, raw
       starting with "BZ", or compressed) tiles the data exactly, in order;
   (b) arbitrary bytes: every string up to MaxArb bytes over an adversarial alphabet: the guarded
       walk stays in bounds and terminates. *)
EXTENDS Container, SequencesExt
CONSTANT MaxArb
VARIABLES want, wf     \* expected records for (a); wf = FALSE for (b)

Payloads == {<<>>, <<7>>, <<7, 8>>, <<66, 90>>, <<66, 90, 104, 1, 2>>, <<1, 2, 3, 4, 5>>}
RecBytes(p, neg) == PrefixBytes(Len(p), neg) \o p
RecSpecs == Payloads \X BOOLEAN
Lists == UNION {[1..n -> RecSpecs] : n \in 0..3}
DataOf(l) == Concat([k \in 1..Len(l) |-> RecBytes(l[k][1], l[k][2])])
RECURSIVE Offsets(_, _, _)
Offsets(l, k, at) == IF k > Len(l) THEN <<>> ELSE <<<<at, 4 + Len(l[k][1])>>>> \o Offsets(l, k + 1, at + 4 + Len(l[k][1]))

Alphabet == {0, 255, 65, 82, 50, 66, 90, 128}
Arbitrary == UNION {[1..n -> Alphabet] : n \in 0..MaxArb}

MInit == \/ \E l \in Lists : WInit(DataOf(l)) /\ want = Offsets(l, 1, 0) /\ wf = TRUE
         \/ \E d \in Arbitrary : WInit(d) /\ want = <<>> /\ wf = FALSE
MNext == WStep /\ UNCHANGED <<want, wf>>
MSpec == MInit /\ [][MNext]_<<wvars, want, wf>> /\ WF_wvars(WStep)

Tiles == (pc = "done" /\ wf) => /\ recs = want
                                               /\ pos = Len(data)
                                               /\ \A k \in DOMAIN recs : Compressed(SubSeq(data, recs[k][1] + 1, recs[k][1] + recs[k][2]))
                                                                          <=> (recs[k][2] >= 6 /\ data[recs[k][1] + 5] = 66 /\ data[recs[k][1] + 6] = 90)
AbstractAgrees == pc = "done" => recs = ExpectedRecords([k \in DOMAIN recs |-> recs[k][2] - 4] \o
                                                          (IF pos + 4 <= Len(data) THEN <<AbsSize(SubSeq(data, pos + 1, pos + 4))>> ELSE <<>>), Len(data))
ASSUME AbsSize(<<255, 255, 255, 255>>) = 1 /\ AbsSize(<<255, 255, 255, 0>>) = 256 /\ AbsSize(<<128, 0, 0, 1>>) = 2147483647 /\ AbsSize(<<0, 0, 1, 0>>) = 256
ASSUME PrefixBytes(5, TRUE) = <<255, 255, 255, 251>> /\ PrefixBytes(5, FALSE) = <<0, 0, 0, 5>> /\ PrefixBytes(0, TRUE) = <<0, 0, 0, 0>>
ASSUME ChunkKind(<<>>) = "error" /\ ChunkKind(<<65, 82>>) = "error" /\ ChunkKind(<<65, 82, 50>>) = "start" /\ ChunkKind(<<0, 0, 0, 9, 66>>) = "error" /\ ChunkKind(<<0, 0, 0, 9, 66, 90>>) = "record"
=============================================================================
