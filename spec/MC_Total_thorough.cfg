SPECIFICATION TSpec
CONSTANT Depth = 2
INVARIANTS Total PosInRange AllocBounded Export
PROPERTY Terminates
CHECK_DEADLOCK FALSE
