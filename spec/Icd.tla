-------------------------------- MODULE Icd --------------------------------
(***************************************************************************)
(* L0 -- the ICD 2620002W / 2620010H layouts as data: <<field, width>> in  *)
(* wire order.  Field names are the names the conformance driver projects  *)
(* the decoded structs to.  The same tables are exported to layouts.json   *)
(* for the driver's table-driven encoder (bin/vsetup, module Gen_Icd).     *)
(***************************************************************************)
EXTENDS Wire

MsgHeaderL == << <<"rpg_unknown", 12>>, <<"segment_size", 2>>, <<"redundant_channel", 1>>, <<"message_type", 1>>,
                 <<"sequence_number", 2>>, <<"date", 2>>, <<"time", 4>>, <<"segment_count", 2>>, <<"segment_number", 2>> >>

DrdHeaderL == << <<"radar_identifier", 4>>, <<"time", 4>>, <<"date", 2>>, <<"azimuth_number", 2>>, <<"azimuth_angle", 4>>,
                 <<"compression_indicator", 1>>, <<"spare", 1>>, <<"radial_length", 2>>, <<"azimuth_resolution_spacing", 1>>,
                 <<"radial_status", 1>>, <<"elevation_number", 1>>, <<"cut_sector_number", 1>>, <<"elevation_angle", 4>>,
                 <<"radial_spot_blanking_status", 1>>, <<"azimuth_indexing_mode", 1>>, <<"data_block_count", 2>> >>

VolL == << <<"data_block_type", 1>>, <<"data_name", 3>>, <<"lrtup", 2>>, <<"major_version_number", 1>>, <<"minor_version_number", 1>>,
           <<"latitude", 4>>, <<"longitude", 4>>, <<"site_height", 2>>, <<"feedhorn_height", 2>>, <<"calibration_constant", 4>>,
           <<"horizontal_shv_tx_power", 4>>, <<"vertical_shv_tx_power", 4>>, <<"system_differential_reflectivity", 4>>,
           <<"initial_system_differential_phase", 4>>, <<"volume_coverage_pattern_number", 2>>, <<"processing_status", 2>>,
           <<"zdr_bias_estimate_weighted_mean", 2>>, <<"spare", 6>> >>

ElvL == << <<"data_block_type", 1>>, <<"data_name", 3>>, <<"lrtup", 2>>, <<"atmos", 2>>, <<"calibration_constant", 4>> >>

RadL == << <<"data_block_type", 1>>, <<"data_name", 3>>, <<"lrtup", 2>>, <<"unambiguous_range", 2>>,
           <<"horizontal_channel_noise_level", 4>>, <<"vertical_channel_noise_level", 4>>, <<"nyquist_velocity", 2>>,
           <<"radial_flags", 2>>, <<"horizontal_channel_calibration_constant", 4>>, <<"vertical_channel_calibration_constant", 4>> >>

GenL == << <<"data_block_type", 1>>, <<"data_name", 3>>, <<"reserved", 4>>, <<"number_of_data_moment_gates", 2>>,
           <<"data_moment_range", 2>>, <<"data_moment_range_sample_interval", 2>>, <<"tover", 2>>, <<"snr_threshold", 2>>,
           <<"control_flags", 1>>, <<"data_word_size", 1>>, <<"scale", 4>>, <<"offset", 4>> >>

VcpHeaderL == << <<"message_size", 2>>, <<"pattern_type", 2>>, <<"pattern_number", 2>>, <<"number_of_elevation_cuts", 2>>,
                 <<"version", 1>>, <<"clutter_map_group_number", 1>>, <<"doppler_velocity_resolution", 1>>, <<"pulse_width", 1>>,
                 <<"reserved_1", 4>>, <<"vcp_sequencing", 2>>, <<"vcp_supplemental_data", 2>>, <<"reserved_2", 2>> >>

VcpCutL == << <<"elevation_angle", 2>>, <<"channel_configuration", 1>>, <<"waveform_type", 1>>, <<"super_resolution_control", 1>>,
              <<"surveillance_prf_number", 1>>, <<"surveillance_prf_pulse_count_radial", 2>>, <<"azimuth_rate", 2>>,
              <<"reflectivity_threshold", 2>>, <<"velocity_threshold", 2>>, <<"spectrum_width_threshold", 2>>,
              <<"differential_reflectivity_threshold", 2>>, <<"differential_phase_threshold", 2>>,
              <<"correlation_coefficient_threshold", 2>>, <<"sector_1_edge_angle", 2>>, <<"sector_1_doppler_prf_number", 2>>,
              <<"sector_1_doppler_prf_pulse_count_radial", 2>>, <<"supplemental_data", 2>>, <<"sector_2_edge_angle", 2>>,
              <<"sector_2_doppler_prf_number", 2>>, <<"sector_2_doppler_prf_pulse_count_radial", 2>>, <<"ebc_angle", 2>>,
              <<"sector_3_edge_angle", 2>>, <<"sector_3_doppler_prf_number", 2>>, <<"sector_3_doppler_prf_pulse_count_radial", 2>>,
              <<"reserved", 2>> >>

(* RDA status data, ICD Table IV: 60 halfwords *)
RdaL == << <<"rda_status", 2>>, <<"operability_status", 2>>, <<"control_status", 2>>, <<"auxiliary_power_generator_state", 2>>,
           <<"average_transmitter_power", 2>>, <<"horizontal_reflectivity_calibration_correction", 2>>,
           <<"data_transmission_enabled", 2>>, <<"volume_coverage_pattern", 2>>, <<"rda_control_authorization", 2>>,
           <<"rda_build_number", 2>>, <<"operational_mode", 2>>, <<"super_resolution_status", 2>>,
           <<"clutter_mitigation_decision_status", 2>>, <<"rda_scan_and_data_flags", 2>>, <<"rda_alarm_summary", 2>>,
           <<"command_acknowledgement", 2>>, <<"channel_control_status", 2>>, <<"spot_blanking_status", 2>>,
           <<"bypass_map_generation_date", 2>>, <<"bypass_map_generation_time", 2>>, <<"clutter_filter_map_generation_date", 2>>,
           <<"clutter_filter_map_generation_time", 2>>, <<"vertical_reflectivity_calibration_correction", 2>>,
           <<"transition_power_source_status", 2>>, <<"rms_control_status", 2>>, <<"performance_check_status", 2>>,
           <<"alarm_codes", 28>>, <<"signal_processor_options", 2>>, <<"spares", 36>>, <<"status_version", 2>> >>

CfmHeaderL == << <<"map_generation_date", 2>>, <<"map_generation_time", 2>>, <<"elevation_segment_count", 2>> >>
CfmAzL == << <<"range_zone_count", 2>> >>
CfmZoneL == << <<"op_code", 2>>, <<"end_range", 2>> >>

VolumeHeaderL == << <<"tape_filename", 9>>, <<"extension_number", 3>>, <<"date", 4>>, <<"time", 4>>, <<"icao_of_radar", 4>> >>

Layouts == [msg_header |-> MsgHeaderL, drd_header |-> DrdHeaderL, vol |-> VolL, elv |-> ElvL, rad |-> RadL, gen |-> GenL,
            vcp_header |-> VcpHeaderL, vcp_cut |-> VcpCutL, rda |-> RdaL, cfm_header |-> CfmHeaderL, cfm_az |-> CfmAzL,
            cfm_zone |-> CfmZoneL, volume_header |-> VolumeHeaderL]

FrameSize == 2432                         \* fixed-length message frame, header included

(* block name (3 ASCII codes) -> product the block must be delivered under *)
BlockNames == [VOL |-> <<86, 79, 76>>, ELV |-> <<69, 76, 86>>, RAD |-> <<82, 65, 68>>, REF |-> <<82, 69, 70>>,
               VEL |-> <<86, 69, 76>>, SW |-> <<83, 87, 32>>, ZDR |-> <<90, 68, 82>>, PHI |-> <<80, 72, 73>>,
               RHO |-> <<82, 72, 79>>, CFP |-> <<67, 70, 80>>]
Products == {"VOL", "ELV", "RAD", "REF", "VEL", "SW", "ZDR", "PHI", "RHO", "CFP"}
Moments == {"REF", "VEL", "SW", "ZDR", "PHI", "RHO", "CFP"}
BlockLayout(p) == IF p = "VOL" THEN VolL ELSE IF p = "ELV" THEN ElvL ELSE IF p = "RAD" THEN RadL ELSE GenL

ASSUME SizeOf(MsgHeaderL) = 28 /\ SizeOf(DrdHeaderL) = 32 /\ SizeOf(VolL) = 52 /\ SizeOf(ElvL) = 12
ASSUME SizeOf(RadL) = 28 /\ SizeOf(GenL) = 28 /\ SizeOf(VcpHeaderL) = 22 /\ SizeOf(VcpCutL) = 46
ASSUME SizeOf(RdaL) = 120 /\ SizeOf(CfmHeaderL) = 6 /\ SizeOf(VolumeHeaderL) = 24
ASSUME \A nm \in DOMAIN Layouts : Cardinality(Names(Layouts[nm])) = Len(Layouts[nm])      \* names distinct
ASSUME \A a, b \in Products : a # b => BlockNames[a] # BlockNames[b]
ASSUME ChunkInvariance(<<0, 1, 2, 3, 4, 5>>) /\ Cardinality(Chunkings(<<0, 1, 2, 3, 4, 5>>)) = 32              \* every way a reader can deliver six bytes
=============================================================================
