------------------------------- MODULE Sweep -------------------------------
(***************************************************************************)
(* L3 -- nexrad-model/src/data/sweep.rs.                                   *)
(*                                                                         *)
(* Sweep::from_radials as the step machine the code is: one Push per input  *)
(* radial (flush the pending run when the elevation number changes), one   *)
(* Flush at end of input.  Sweep::merge as a pure operator (equality guard, *)
(* concatenate, stable sort by azimuth number).  Declarative counterparts  *)
(* MaximalRuns / StableMerge are what properties C09 and C01 quantify over. *)
(*                                                                         *)
(* A radial is abstracted to [el, az, id]: elevation number, azimuth       *)
(* number, and a unique tag so that loss, duplication and reordering are    *)
(* visible.                                                                 *)
(***************************************************************************)
EXTENDS Integers, Sequences, FiniteSets, SequencesExt, TLC

CONSTANTS Elevs,      \* elevation numbers used by the bounded model
          MaxLen      \* maximum input length of the bounded model

None == -1   \* no pending run yet (elevation numbers are 0..255)

VARIABLES in,     \* input sequence of radials
          i,      \* index of the next radial to consume
          cur,    \* pending run (sweep_radials)
          curEl,  \* elevation number of the pending run (sweep_elevation_number)
          out,    \* emitted sweeps
          pc      \* "loop" | "done"
vars == <<in, i, cur, curEl, out, pc>>

RECURSIVE Flat(_)
Flat(ss) == IF ss = <<>> THEN <<>> ELSE Head(ss).rs \o Flat(Tail(ss))

Tagged(els) == [k \in 1..Len(els) |-> [el |-> els[k], id |-> k]]

Inputs == UNION {[1..n -> Elevs] : n \in 0..MaxLen}

Init == /\ in \in {Tagged(e) : e \in Inputs}
        /\ i = 1 /\ cur = <<>> /\ curEl = None /\ out = <<>> /\ pc = "loop"

(* One iteration of the for loop. *)
Push == /\ pc = "loop" /\ i <= Len(in)
        /\ LET r == in[i] IN
             /\ IF curEl # None /\ curEl # r.el
                  THEN /\ out' = Append(out, [el |-> curEl, rs |-> cur])
                       /\ cur' = <<r>>
                  ELSE /\ cur' = Append(cur, r)
                       /\ UNCHANGED out
             /\ curEl' = r.el
        /\ i' = i + 1
        /\ UNCHANGED <<in, pc>>

(* End of input: the pending run is emitted (the step the pinned tree lacked). *)
Flush == /\ pc = "loop" /\ i > Len(in)
         /\ out' = IF cur = <<>> THEN out ELSE Append(out, [el |-> curEl, rs |-> cur])
         /\ cur' = <<>>
         /\ pc' = "done"
         /\ UNCHANGED <<in, i, curEl>>

(* AsPinned variant, only used by the configuration that exhibits the finding. *)
DoneWithoutFlush == /\ pc = "loop" /\ i > Len(in)
                    /\ pc' = "done"
                    /\ UNCHANGED <<in, i, cur, curEl, out>>

Next == Push \/ Flush
Spec == Init /\ [][Next]_vars /\ WF_vars(Next)

NextAsPinned == Push \/ DoneWithoutFlush
SpecAsPinned == Init /\ [][NextAsPinned]_vars

-----------------------------------------------------------------------------
(* Declarative grouping: maximal runs of equal elevation number. *)
Starts(s) == {j \in 1..Len(s) : j = 1 \/ s[j].el # s[j-1].el}
EndOf(s, j) == CHOOSE e \in j..Len(s) :
                  /\ (e = Len(s) \/ (e + 1) \in Starts(s))
                  /\ \A m \in (j+1)..e : m \notin Starts(s)
MaximalRuns(s) == LET st == SetToSortSeq(Starts(s), <) IN
                    [g \in 1..Len(st) |-> [el |-> s[st[g]].el, rs |-> SubSeq(s, st[g], EndOf(s, st[g]))]]

-----------------------------------------------------------------------------
(* Properties (C09 first sentence; reused by C01). *)
TypeOK == /\ pc \in {"loop", "done"} /\ i \in 1..(Len(in) + 1)

PrefixInv == pc = "loop" => Flat(out) \o cur = SubSeq(in, 1, i - 1)

Conserve == pc = "done" =>
              /\ Flat(out) = in
              /\ \A g \in DOMAIN out : /\ out[g].rs # <<>>
                                       /\ \A k \in DOMAIN out[g].rs : out[g].rs[k].el = out[g].el
              /\ \A g \in 1..(Len(out) - 1) : out[g].el # out[g+1].el
              /\ (in = <<>> <=> out = <<>>)

MachineEqualsDeclaration == pc = "done" => out = MaximalRuns(in)

Termination == <>(pc = "done")

-----------------------------------------------------------------------------
(* Merge: Sweep::merge(self, other).  A sweep is [el, rs] with rs a sequence of *)
(* [az, id].                                                                  *)
RECURSIVE InsertStable(_, _)
InsertStable(sorted, r) ==   \* insert r after every element with az <= r.az
    IF sorted = <<>> THEN <<r>>
    ELSE IF Head(sorted).az <= r.az THEN <<Head(sorted)>> \o InsertStable(Tail(sorted), r)
    ELSE <<r>> \o sorted

RECURSIVE StableSortByAz(_)
StableSortByAz(s) == IF s = <<>> THEN <<>> ELSE InsertStable(StableSortByAz(Front(s)), Last(s))

MergeErr == [err |-> "ElevationMismatch"]
Merge(a, b) == IF a.el # b.el THEN MergeErr
               ELSE [el |-> a.el, rs |-> StableSortByAz(a.rs \o b.rs)]

(* Declarative: res is the unique rearrangement of the concatenation c that is sorted by az and
   keeps concatenation (first-then-second) order on ties.  Radials carry unique ids that increase
   along c, so "earlier in c" is "smaller id". *)
IsStableMerge(c, res) ==
    /\ Len(res) = Len(c)
    /\ {res[k] : k \in DOMAIN res} = {c[k] : k \in DOMAIN c}
    /\ \A x, y \in DOMAIN c : x < y => c[x].id < c[y].id
    /\ \A k \in 1..(Len(res) - 1) : \/ res[k].az < res[k+1].az
                                     \/ (res[k].az = res[k+1].az /\ res[k].id < res[k+1].id)
=============================================================================
