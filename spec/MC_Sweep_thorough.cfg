SPECIFICATION Spec
CONSTANTS
  Elevs = {0, 1, 2, 255}
  MaxLen = 8
  Azs = {1, 2, 3}
  MaxSide = 3
INVARIANTS TypeOK PrefixInv Conserve MachineEqualsDeclaration
PROPERTY Termination
CHECK_DEADLOCK FALSE
