----------------------------- MODULE MC_Sweep -----------------------------
EXTENDS Sweep
CONSTANTS Azs, MaxSide

(* All sweep pairs with up to MaxSide radials each over the azimuth numbers Azs (duplicates and
   unsorted inputs included); ids tag the radials 1.. in concatenation order. *)
Sides == UNION {[1..n -> Azs] : n \in 0..MaxSide}
MkSweep(el, azs, base) == [el |-> el, rs |-> [k \in 1..Len(azs) |-> [az |-> azs[k], id |-> base + k]]]

MergeOk == \A a \in Sides, b \in Sides :
             LET A == MkSweep(1, a, 0)
                 B == MkSweep(1, b, Len(a))
                 C == MkSweep(2, b, Len(a))
             IN /\ Merge(A, C) = MergeErr
                /\ Merge(A, B).el = 1
                /\ IsStableMerge(A.rs \o B.rs, Merge(A, B).rs)
ASSUME MergeOk
=============================================================================
