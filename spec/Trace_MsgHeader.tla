-------------------------- MODULE Trace_MsgHeader --------------------------
(* Mechanism T: one event per header decoded and queried by the real accessors
     {size, cnt, num, segmented, segcnt, segnum, bhi, blo, uhi, ulo, ssz, panic}
   (absent = -1; 32-bit sizes as hi/lo halves), batch-validated against MsgHeader.tla. *)
EXTENDS MsgHeader, Json, IOUtils
Rec == ndJsonDeserialize(IOEnv.TRACE)
Batch == 4096
VARIABLE l
Bad(sig, i) == PrintT(<<"MISMATCH", sig, i>>)
Check(e, i) ==
    IF e.panic THEN Bad("C10/size/panic", i)
    ELSE LET sp == SizePair(e.size, e.cnt, e.num) IN
         /\ IF e.segmented = Segmented(e.size) THEN TRUE ELSE Bad("C10/segmented", i)
         /\ IF e.segcnt = SegCount(e.size, e.cnt) /\ e.segnum = SegNumber(e.size, e.num) THEN TRUE ELSE Bad("C10/segment_accessors", i)
         /\ IF <<e.bhi, e.blo>> = sp THEN TRUE
            ELSE Bad(IF Segmented(e.size) THEN "C10/message_size_bytes/segmented" ELSE "C10/message_size_bytes/variable_length", i)
         /\ IF <<e.uhi, e.ulo>> = sp THEN TRUE
            ELSE Bad(IF Segmented(e.size) THEN "C10/message_size/segmented" ELSE "C10/message_size/variable_length", i)
         /\ IF e.ssz = SegSizeBytes(e.size) THEN TRUE ELSE Bad("C10/segment_size", i)
         /\ IF <<e.bhi, e.blo>> = <<e.uhi, e.ulo>> THEN TRUE ELSE Bad("C10/size_accessors_disagree", i)
Init == l = 1
Next == \/ /\ l <= Len(Rec)
           /\ LET hi == IF l + Batch - 1 < Len(Rec) THEN l + Batch - 1 ELSE Len(Rec)
              IN (\A i \in l..hi : Check(Rec[i], i)) /\ l' = hi + 1
        \/ /\ l = Len(Rec) + 1 /\ PrintT(<<"TRACE-CONSUMED", Len(Rec)>>) /\ UNCHANGED l
TSpec == Init /\ [][Next]_l
=============================================================================
