--------------------------- MODULE Trace_Radial ---------------------------
(* Mechanism T for Radial.
   {vals, w, scale_zero, first_raw, gates, cls_decode, cls_model, float_ok}
        one moment block holding the consecutive raw values first_raw.. : the class of every gate at the
        decode level and the model level; float_ok = both levels bit-equal to (raw - offset) / scale
   {radial, azn, spc, stc, eln, date, t, present, a, b}
        header values of a decoded message and the projections of radial() (a) and into_radial() (b) *)
EXTENDS Integers, Sequences, TLC, Json, IOUtils
StatusName(c) == CASE c = 0 -> "ElevationStart" [] c = 1 -> "IntermediateRadialData" [] c = 2 -> "ElevationEnd"
                   [] c = 3 -> "VolumeScanStart" [] c = 4 -> "VolumeScanEnd" [] c = 5 -> "ElevationStartVCPFinal" [] OTHER -> "undocumented"
ClassOf(raw, scaleZero) == IF scaleZero THEN 2 ELSE IF raw = 0 THEN 0 ELSE IF raw = 1 THEN 1 ELSE 2
Rec == ndJsonDeserialize(IOEnv.TRACE)
VARIABLE l
Bad(sig, i) == PrintT(<<"MISMATCH", sig, i>>)
ClsOk(e, cls) == /\ Len(cls) = e.gates
                 /\ \A k \in 1..Len(cls) : LET raw == e.first_raw + k - 1 IN (e.scale_zero /\ raw \in {0, 1}) \/ cls[k] = ClassOf(raw, e.scale_zero)
Check(e, i) ==
    IF "vals" \in DOMAIN e THEN
        /\ IF Len(e.cls_decode) = e.gates THEN TRUE ELSE Bad("C07/decoded_values/one_value_per_gate", i)
        /\ IF Len(e.cls_model) = e.gates THEN TRUE ELSE Bad("C07/model_values/one_value_per_gate", i)
        /\ IF Len(e.cls_decode) # e.gates \/ ClsOk(e, e.cls_decode) THEN TRUE ELSE Bad("C07/decoded_values/class", i)
        /\ IF Len(e.cls_model) # e.gates \/ ClsOk(e, e.cls_model) THEN TRUE ELSE Bad("C07/model_values/class", i)
        /\ IF e.float_ok THEN TRUE ELSE Bad("C07/value_formula", i)
    ELSE
        /\ IF e.a = e.b THEN TRUE ELSE Bad("C07/radial_vs_into_radial", i)
        /\ IF e.a.azimuth_number = e.azn /\ e.a.elevation_number = e.eln /\ e.a.angles_ok THEN TRUE ELSE Bad("C07/radial/numbers_and_angles", i)
        /\ IF e.a.spacing_x2 = e.spc THEN TRUE ELSE Bad("C07/radial/azimuth_spacing", i)
        /\ IF e.stc > 5 \/ e.a.status = StatusName(e.stc) THEN TRUE ELSE Bad("C07/radial/status", i)
        /\ IF e.date < 1 \/ e.t >= 86400000 \/ (e.a.ts_days = e.date - 1 /\ e.a.ts_ms = e.t) THEN TRUE ELSE Bad("C07/radial/collection_time", i)
        /\ IF \A p \in DOMAIN e.present : e.present[p] = e.a.present[p] THEN TRUE ELSE Bad("C07/radial/moment_presence", i)
Init == l = 1
Next == \/ l <= Len(Rec) /\ Check(Rec[l], l) /\ l' = l + 1
        \/ l = Len(Rec) + 1 /\ PrintT(<<"TRACE-CONSUMED", Len(Rec)>>) /\ UNCHANGED l
TSpec == Init /\ [][Next]_l
=============================================================================
