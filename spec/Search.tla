------------------------------- MODULE Search -------------------------------
(***************************************************************************)
(* L4 -- nexrad-data/src/aws/realtime/search.rs + get_latest_volume.rs.    *)
(*                                                                         *)
(* The real-time bucket has N rotating volume directories.  A bucket shape *)
(* is (N, p, k): the populated directories are the k indices ending at the *)
(* newest index p, going backwards in rotation order; the N-k directories  *)
(* after p are empty.  Val(i) is the upload rank of directory i (1 = oldest *)
(* populated, k = newest) or NONE.  Distinct upload times make the rank the *)
(* only thing a comparison-based search can observe.                       *)
(*                                                                         *)
(* The search is transcribed with ONE PROBE PER ACTION: ProbeFirst, Bisect  *)
(* (find any populated element by repeated bisection, breadth first),      *)
(* Rebase (re-read the element at `low`), Bin (rotated binary search).      *)
(* The target is "later than everything" (DateTime::MAX_UTC).               *)
(***************************************************************************)
EXTENDS Integers, Sequences, FiniteSets, TLC

CONSTANTS MaxN          \* bounded model: every N in 1..MaxN, every shape

NONE == 0               \* Option::None orders below every Some(rank)
NoIdx == -1

VARIABLES n, p, k,          \* the bucket shape (fixed during a behaviour)
          pc, first, low, high, nearest, nearestVal, queue, probes, result,
          hist              \* probe sequence (history; hidden by VIEW when checking)
vars == <<n, p, k, pc, first, low, high, nearest, nearestVal, queue, probes, result, hist>>
view == <<n, p, k, pc, first, low, high, nearest, nearestVal, queue, probes, result>>

Target == n + 1                               \* rank no directory has
Val(i) == LET d == (p - i) % n IN IF d < k THEN k - d ELSE NONE
Newest == IF k = 0 THEN NoIdx ELSE p

(* should_search_right(first, value, target), verbatim *)
SSR(f, v, t) == LET firstWrapped == f > v
                    targetWrapped == t < f
                IN IF v < t THEN (~firstWrapped) \/ targetWrapped
                            ELSE firstWrapped /\ ~targetWrapped

Shapes(N) == {<<N, pp, kk>> : pp \in 0..(N-1), kk \in 0..N}

Init == /\ \E N \in 1..MaxN : \E s \in Shapes(N) : n = s[1] /\ p = s[2] /\ k = s[3]
        /\ pc = "first" /\ first = NONE /\ low = 0 /\ high = 0
        /\ nearest = NoIdx /\ nearestVal = NONE /\ queue = <<>> /\ probes = 0 /\ result = NoIdx
        /\ hist = <<>>

Probe(i) == /\ probes' = probes + 1 /\ hist' = Append(hist, i)

ProbeFirst == /\ pc = "first"
              /\ Probe(0)
              /\ first' = Val(0)
              /\ IF Val(0) = Target
                   THEN /\ result' = 0 /\ pc' = "done" /\ UNCHANGED <<low, high, queue>>
                   ELSE /\ low' = 0 /\ high' = n /\ queue' = <<<<0, n - 1>>>> /\ pc' = "bisect"
                        /\ UNCHANGED result
              /\ UNCHANGED <<n, p, k, nearest, nearestVal>>

(* "keep the best candidate": a probed value at or below the target replaces `nearest` only when it
   is greater than the value `nearest` was set from. *)
Better(v) == v # NONE /\ v <= Target /\ v > nearestVal

(* the pinned tree overwrote unconditionally -- see NearestOverwritten below *)
SetNearest(i, v) == IF Better(v) THEN nearest' = i /\ nearestVal' = v ELSE UNCHANGED <<nearest, nearestVal>>
SetNearestAsPinned(i, v) == IF v # NONE /\ v <= Target THEN nearest' = i /\ nearestVal' = v ELSE UNCHANGED <<nearest, nearestVal>>

BisectWith(Set(_, _)) ==
    /\ pc = "bisect"
    /\ IF queue = <<>>
         THEN /\ pc' = "rebase"
              /\ UNCHANGED <<first, low, high, nearest, nearestVal, queue, probes, result, hist>>
         ELSE LET s == Head(queue)[1]
                  e == Head(queue)[2]
                  mid == (s + e) \div 2
                  v == Val(mid)
              IN IF s > e
                   THEN /\ queue' = Tail(queue)
                        /\ UNCHANGED <<pc, first, low, high, nearest, nearestVal, probes, result, hist>>
                   ELSE /\ Probe(mid)
                        /\ IF v = NONE
                             THEN /\ queue' = Tail(queue) \o <<<<mid + 1, e>>>> \o (IF mid > 0 THEN <<<<s, mid - 1>>>> ELSE <<>>)
                                  /\ UNCHANGED <<pc, first, low, high, nearest, nearestVal, result>>
                             ELSE /\ Set(mid, v)
                                  /\ queue' = Tail(queue)
                                  /\ IF v = Target
                                       THEN /\ result' = mid /\ pc' = "done" /\ UNCHANGED <<low, high>>
                                       ELSE /\ IF SSR(first, v, Target) THEN low' = mid + 1 /\ UNCHANGED high
                                                                       ELSE high' = mid /\ UNCHANGED low
                                            /\ pc' = "rebase" /\ UNCHANGED result
                                  /\ UNCHANGED first
    /\ UNCHANGED <<n, p, k>>

Rebase == /\ pc = "rebase"
          /\ IF low >= high
               THEN /\ result' = nearest /\ pc' = "done" /\ UNCHANGED <<first, probes, hist>>
               ELSE /\ Probe(low) /\ first' = Val(low) /\ pc' = "bin" /\ UNCHANGED result
          /\ UNCHANGED <<n, p, k, low, high, nearest, nearestVal, queue>>

BinWith(Set(_, _)) ==
    /\ pc = "bin"
    /\ IF low >= high
         THEN /\ result' = nearest /\ pc' = "done"
              /\ UNCHANGED <<low, high, nearest, nearestVal, probes, hist>>
         ELSE LET mid == low + (high - low) \div 2
                  v == Val(mid)
              IN /\ Probe(mid)
                 /\ Set(mid, v)
                 /\ IF v = Target
                      THEN /\ result' = mid /\ pc' = "done" /\ UNCHANGED <<low, high>>
                      ELSE /\ IF SSR(first, v, Target) THEN low' = mid + 1 /\ UNCHANGED high
                                                      ELSE high' = mid /\ UNCHANGED low
                           /\ UNCHANGED <<pc, result>>
    /\ UNCHANGED <<n, p, k, first, queue>>

Bisect == BisectWith(SetNearest)
Bin == BinWith(SetNearest)
Next == ProbeFirst \/ Bisect \/ Rebase \/ Bin
Spec == Init /\ [][Next]_vars /\ WF_vars(Next)

(* AsPinned: `nearest` overwritten by whatever was probed last (finding C15/search/nearest_overwritten) *)
NearestOverwrittenBisect == BisectWith(SetNearestAsPinned)
NearestOverwrittenBin == BinWith(SetNearestAsPinned)
NextAsPinned == ProbeFirst \/ NearestOverwrittenBisect \/ Rebase \/ NearestOverwrittenBin
SpecAsPinned == Init /\ [][NextAsPinned]_vars

-----------------------------------------------------------------------------
RECURSIVE Log2Ceil(_)
Log2Ceil(x) == IF x <= 1 THEN 0 ELSE 1 + Log2Ceil((x + 1) \div 2)
CallLimit(N) == N + 8 * Log2Ceil(N + 1) + 16     \* "a logarithmic term": generous constants, the statement names none

TypeOK == /\ pc \in {"first", "bisect", "rebase", "bin", "done"}
          /\ low \in 0..n /\ high \in 0..n /\ nearest \in (-1)..(n-1)

Correct == pc = "done" => result = Newest
CallBound == probes <= CallLimit(n)
CallsCounted == probes = Len(hist)
NearestOnlyImproves == [][nearest' # nearest => Val(nearest') > (IF nearest = NoIdx THEN NONE ELSE Val(nearest))]_vars
Termination == <>(pc = "done")
=============================================================================
