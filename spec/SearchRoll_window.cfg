SPECIFICATION RSpec
CONSTANTS
  MaxN = 16
  MaxRolls = 4
INVARIANTS ResultInWindow NeverNoneIfPopulated
CHECK_DEADLOCK FALSE
