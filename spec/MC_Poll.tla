---- MODULE MC_Poll ----
EXTENDS Poll
====
