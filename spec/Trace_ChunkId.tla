--------------------------- MODULE Trace_ChunkId ---------------------------
(* Mechanism T for ChunkId: events recorded from the real ChunkIdentifier / archive::Identifier,
   batch-validated against ChunkId.tla.
     succ    {vol, seq, nvol, nseq, keep, ntype}   one next_chunk() step of the full-cycle walk
     name    {vol, seq, pseq, ptype, prefix_ok, oseq, wseq, wtype, wkeep}
     str     {cps, seq, type, panic}               chunk sequence/type parsers on arbitrary text
     arch    {cps, site, dt, panic}                archive-name parsers (valid and arbitrary names)
   Absent values are encoded as -1 / <<-1>> / <<-1, -1>>. *)
EXTENDS ChunkId, TLC, Json, IOUtils

Rec == ndJsonDeserialize(IOEnv.TRACE)
Batch == 2048
VARIABLE l

TC(t) == IF t = "S" THEN 1 ELSE IF t = "I" THEN 2 ELSE 3
Bad(sig, i) == PrintT(<<"MISMATCH", sig, i>>)

CheckSucc(e, i) ==
    /\ IF SuccPos(e.vol, e.seq) = <<e.nvol, e.nseq>> /\ e.nvol \in 1..MaxVol THEN TRUE ELSE Bad("C16/next_chunk/successor", i)
    /\ IF e.keep /\ e.ntype = TC(TypeOf(e.nseq)) THEN TRUE ELSE Bad("C16/next_chunk/identifier", i)
    /\ IF i > 1 /\ Rec[i-1].ev = "succ" /\ <<Rec[i-1].nvol, Rec[i-1].nseq>> # <<e.vol, e.seq>> THEN Bad("C16/next_chunk/walk_broken", i) ELSE TRUE
    /\ IF (i = Len(Rec) \/ Rec[i+1].ev # "succ") /\ (<<e.nvol, e.nseq>> # <<1, 1>> \/ e.step # MaxVol * LastSeq)
         THEN Bad("C16/next_chunk/cycle", i) ELSE TRUE

CheckName(e, i) ==
    /\ IF e.pseq = e.seq /\ e.ptype = TC(TypeOf(e.seq)) /\ e.prefix_ok THEN TRUE ELSE Bad("C16/name/parse", i)
    /\ IF e.wseq = e.oseq /\ e.wtype = TC(TypeOf(e.oseq)) /\ e.wkeep THEN TRUE ELSE Bad("C16/name/with_sequence", i)

CheckStr(e, i) ==
    /\ IF e.panic THEN Bad("C16/parsers/panic", i) ELSE TRUE
    /\ IF e.panic THEN TRUE
       ELSE LET c == SeqClass(e.cps) IN
            IF (c = "yes" /\ e.seq # SeqValue(e.cps)) \/ (c = "no" /\ e.seq # -1) THEN Bad("C16/sequence/grammar", i) ELSE TRUE
    /\ IF e.panic \/ e.type = TypeCodeOf(e.cps) THEN TRUE ELSE Bad("C16/chunk_type/grammar", i)

CheckArch(e, i) ==
    /\ IF e.panic THEN Bad("C16/archive/panic", i) ELSE TRUE
    /\ IF e.panic \/ e.site = ArchSite(e.cps) THEN TRUE ELSE Bad("C16/archive/site", i)
    /\ IF e.panic THEN TRUE
       ELSE LET c == ArchClass(e.cps) IN
            IF (c = "yes" /\ e.dt # <<ArchDays(e.cps), ArchSecs(e.cps)>>) \/ (c = "no" /\ e.dt # <<-1, -1>>)
              THEN Bad("C16/archive/date_time", i) ELSE TRUE

Check(e, i) == CASE e.ev = "succ" -> CheckSucc(e, i)
                 [] e.ev = "name" -> CheckName(e, i)
                 [] e.ev = "str" -> CheckStr(e, i)
                 [] e.ev = "arch" -> CheckArch(e, i)
                 [] OTHER -> Bad("C16/unknown_event", i)

TInit == l = 1 /\ vol = 1 /\ seq = 1
TNext == \/ /\ l <= Len(Rec)
            /\ LET hi == IF l + Batch - 1 < Len(Rec) THEN l + Batch - 1 ELSE Len(Rec)
               IN /\ \A i \in l..hi : Check(Rec[i], i)
                  /\ l' = hi + 1
            /\ UNCHANGED civars
         \/ /\ l = Len(Rec) + 1
            /\ PrintT(<<"TRACE-CONSUMED", Len(Rec)>>)
            /\ UNCHANGED <<l, civars>>
TSpec == TInit /\ [][TNext]_<<l, civars>>
=============================================================================
