---------------------------- MODULE Gen_Sweep ----------------------------
(* Mechanism G for Sweep: every bounded input together with the outcome the specification requires,
   written as ndjson for the Rust driver (vdrive sweep replay). *)
EXTENDS MC_Sweep, Json, IOUtils

Proj(runs) == [g \in DOMAIN runs |-> [el |-> runs[g].el, ids |-> [j \in DOMAIN runs[g].rs |-> runs[g].rs[j].id]]]

GenFrom == {[k |-> "from", els |-> e, expect |-> Proj(MaximalRuns(Tagged(e)))] : e \in Inputs}

MergeCase(ea, a, eb, b) ==
    LET A == MkSweep(ea, a, 0)
        B == MkSweep(eb, b, Len(a))
        M == Merge(A, B)
    IN [k |-> "merge", ela |-> ea, a |-> a, elb |-> eb, b |-> b,
        err |-> (M = MergeErr),
        ids |-> IF M = MergeErr THEN <<>> ELSE [j \in DOMAIN M.rs |-> M.rs[j].id]]

GenMerge == {MergeCase(1, a, eb, b) : a \in Sides, b \in Sides, eb \in {1, 2}}

ASSUME ndJsonSerialize(IOEnv.OUT, SetToSeq(GenFrom) \o SetToSeq(GenMerge))

GenInit == in = <<>> /\ i = 1 /\ cur = <<>> /\ curEl = None /\ out = <<>> /\ pc = "done"
GenNext == UNCHANGED vars
=============================================================================
