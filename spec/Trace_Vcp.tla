---------------------------- MODULE Trace_Vcp ----------------------------
(* Mechanism T for Vcp: one event per accessor carrying its value for EVERY raw field value:
     {acc, vals}   vals[raw + 1] = accessor(raw), scaled to an integer (flags 0/1)
     {acc, names}  coded byte fields: names[code + 1] = Debug name of the meaning
     {dec, n, avail, out, got}   count-driven decoding: declared cuts, bytes available, outcome *)
EXTENDS Vcp, Json, IOUtils
Rec == ndJsonDeserialize(IOEnv.TRACE)
VARIABLE l
Bad(sig, i) == PrintT(<<"MISMATCH", sig, i>>)
NameOf(acc, c) == IF acc = "channel_configuration" THEN ChannelName(c) ELSE IF acc = "waveform_type" THEN WaveformName(c)
                  ELSE IF acc = "pulse_width" THEN PulseWidthName(c) ELSE PatternTypeName(c)
Check(e, i) ==
    IF "vals" \in DOMAIN e THEN
        IF \A raw \in 0..(Len(e.vals) - 1) : e.vals[raw + 1] = Expected(e.acc, raw) THEN TRUE
        ELSE Bad("C11/accessor/" \o e.acc, i)
    ELSE IF "names" \in DOMAIN e THEN
        IF \A c \in 0..(Len(e.names) - 1) : e.names[c + 1] = NameOf(e.acc, c) THEN TRUE ELSE Bad("C11/code/" \o e.acc, i)
    ELSE IF e.out = "panic" THEN Bad("C11/decode/panic", i)
    ELSE IF e.out # Outcome(e.avail, e.n) THEN Bad(IF e.out = "ok" THEN "C11/decode/accepts_short_input" ELSE "C11/decode/rejects_wellformed", i)
    ELSE IF e.out = "ok" /\ e.got # e.n THEN Bad("C11/decode/cut_count", i)
    ELSE TRUE
Init == l = 1 /\ VInit(0, 0)
Next == \/ l <= Len(Rec) /\ Check(Rec[l], l) /\ l' = l + 1 /\ UNCHANGED vvars
        \/ l = Len(Rec) + 1 /\ PrintT(<<"TRACE-CONSUMED", Len(Rec)>>) /\ UNCHANGED <<l, vvars>>
TSpec == Init /\ [][Next]_<<l, vvars>>
=============================================================================
