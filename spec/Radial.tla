------------------------------- MODULE Radial -------------------------------
(***************************************************************************)
(* L3 -- radial model mapping and gate values:                             *)
(* nexrad-decode/.../digital_radar_data/message.rs (radial, into_radial),  *)
(* generic_data_block.rs (decoded_values, moment_data), and                *)
(* nexrad-model/src/data/{moment,radial}.rs.                               *)
(*                                                                         *)
(* Gate words: 8-bit = one byte, 16-bit = big-endian byte pair.  A gate is *)
(* Below (raw 0), Folded (raw 1) or Value(raw); with scale = 0 every raw   *)
(* is Value(raw) (for raw in {0,1} under scale 0 the statement is          *)
(* ambiguous and nothing is claimed).  The floating-point value            *)
(* (raw - offset) / scale itself is outside TLA+ (no reals): the spec      *)
(* fixes WHICH raw integer and class each gate has.                        *)
(***************************************************************************)
EXTENDS Drd, DateTime

Raws(gates, word) == IF word = 16 THEN [k \in 1..(Len(gates) \div 2) |-> gates[2 * k - 1] * 256 + gates[2 * k]]
                     ELSE gates
ClassOf(raw, scaleZero) == IF scaleZero THEN "value" ELSE IF raw = 0 THEN "below" ELSE IF raw = 1 THEN "folded" ELSE "value"
ScaleIsZero(scaleBytes) == scaleBytes \in {<<0, 0, 0, 0>>, <<128, 0, 0, 0>>}        \* +0.0 and -0.0

StatusName(c) == CASE c = 0 -> "ElevationStart" [] c = 1 -> "IntermediateRadialData" [] c = 2 -> "ElevationEnd"
                   [] c = 3 -> "VolumeScanStart" [] c = 4 -> "VolumeScanEnd" [] c = 5 -> "ElevationStartVCPFinal" [] OTHER -> "undocumented"

(* model moment name of each product *)
MomentOf == [REF |-> "reflectivity", VEL |-> "velocity", SW |-> "spectrum_width", ZDR |-> "differential_reflectivity",
             PHI |-> "differential_phase", RHO |-> "correlation_coefficient", CFP |-> "specific_differential_phase"]

(* the model radial a decoded message (hdr, prod as in Drd!Expected) must map to *)
RadialOf(h, pr) ==
    [azimuth_number |-> U16Of(h["azimuth_number"]),
     azimuth_angle_bits |-> h["azimuth_angle"],
     spacing_x2 |-> h["azimuth_resolution_spacing"][1],
     status |-> StatusName(h["radial_status"][1]),
     elevation_number |-> h["elevation_number"][1],
     elevation_angle_bits |-> h["elevation_angle"],
     time |-> Instant(U16Of(h["date"]), 0),                    \* days; ms-of-day travels as bytes (u32)
     time_ms_bytes |-> h["time"],
     moments |-> [p \in Moments |->
                    IF pr[p].absent THEN [absent |-> TRUE]
                    ELSE LET w == pr[p].rec["data_word_size"][1]
                             rs == Raws(pr[p].gates, w)
                             z == ScaleIsZero(pr[p].rec["scale"])
                         IN [absent |-> FALSE, gates |-> U16Of(pr[p].rec["number_of_data_moment_gates"]), raws |-> rs,
                             cls |-> [k \in DOMAIN rs |-> ClassOf(rs[k], z)], scale_zero |-> z]]]

OneValuePerGate(r) == \A p \in Moments : ~r.moments[p].absent => Len(r.moments[p].raws) = r.moments[p].gates
=============================================================================
