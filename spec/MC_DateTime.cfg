SPECIFICATION Spec
INVARIANTS ClosedFormAgrees InverseAgrees Monotone EndsIn2149
CHECK_DEADLOCK FALSE
