-------------------------------- MODULE Drd --------------------------------
(***************************************************************************)
(* L1 -- Digital Radar Data (message type 31),                             *)
(* nexrad-decode/src/messages/digital_radar_data.rs.                       *)
(*                                                                         *)
(* An abstract message is                                                  *)
(*   [hdr    : field -> bytes of the 32-byte header,                       *)
(*    blocks : sequence in FILE order of [p, rec, gates, gap],             *)
(*    ptrs   : sequence (POINTER-TABLE order) of indices into blocks]      *)
(* EncodeDrd lays it out: header, pointer table (4 bytes per pointer,      *)
(* offsets from the message start), then each block preceded by `gap`      *)
(* filler bytes.  The decoder is the step machine the code is: ReadHeader, *)
(* ReadPointers, then per pointer Seek+PeekId, Dispatch, ReadBlock         *)
(* (fixed block, or generic header + gate buffer of gates x word/8 bytes), *)
(* Route by block name.  Its outcome is "ok" or "err" -- never "panic".    *)
(***************************************************************************)
EXTENDS Icd, TLC

(* deterministic filler values: distinct per field index, asymmetric under byte reversal *)
FieldBytes(salt, k, w) == [j \in 1..w |-> (salt * 29 + k * 17 + j * 7 + 3) % 256]
FillRec(layout, salt) == [nm \in Names(layout) |-> FieldBytes(salt, IndexOf(layout, nm), WidthOf(layout, nm))]
GateBytes(salt, n) == [j \in 1..n |-> (salt * 13 + j * 5 + 1) % 256]

IsMoment(p) == p \in Moments
TypeByte(p) == IF IsMoment(p) THEN 68 ELSE 82                    \* 'D' / 'R'

(* a block of product p with g gates of w bits (moments only) *)
MkBlock(p, salt, g, w, gap) ==
    LET base == [FillRec(BlockLayout(p), salt) EXCEPT !["data_block_type"] = <<TypeByte(p)>>, !["data_name"] = BlockNames[p]]
        rec == IF IsMoment(p) THEN [base EXCEPT !["number_of_data_moment_gates"] = U16Bytes(g), !["data_word_size"] = <<w>>] ELSE base
    IN [p |-> p, rec |-> rec, gates |-> IF IsMoment(p) THEN GateBytes(salt, g * (w \div 8)) ELSE <<>>, gap |-> gap]

MkHeader(salt, count) == [FillRec(DrdHeaderL, salt) EXCEPT !["data_block_count"] = U16Bytes(count)]

BlockBytes(b) == EncodeBy(BlockLayout(b.p), b.rec) \o b.gates
BlockLen(b) == SizeOf(BlockLayout(b.p)) + Len(b.gates)

RECURSIVE StartOf(_, _, _)           \* offset (from message start) of block k in file order
StartOf(blocks, first, k) == IF k = 1 THEN first + blocks[1].gap
                             ELSE StartOf(blocks, first, k - 1) + BlockLen(blocks[k - 1]) + blocks[k].gap
BodyStart(m) == SizeOf(DrdHeaderL) + 4 * Len(m.ptrs)
PtrValue(m, j) == StartOf(m.blocks, BodyStart(m), m.ptrs[j])

RECURSIVE BodyBytes(_, _)
BodyBytes(blocks, k) == IF k > Len(blocks) THEN <<>>
                        ELSE [j \in 1..blocks[k].gap |-> 238] \o BlockBytes(blocks[k]) \o BodyBytes(blocks, k + 1)

EncodeDrd(m) == EncodeBy(DrdHeaderL, m.hdr)
                \o Concat([j \in 1..Len(m.ptrs) |-> U32Bytes(PtrValue(m, j))])
                \o BodyBytes(m.blocks, 1)

(* where the reader stands after a successful decode: the end of the block the LAST pointer names
   (named deviation ReaderEndsAtLastPointer: not necessarily the end of the message) *)
ReaderEnd(m) == IF m.ptrs = <<>> THEN BodyStart(m)
                ELSE PtrValue(m, Len(m.ptrs)) + BlockLen(m.blocks[m.ptrs[Len(m.ptrs)]])

(* what a correct decode yields: header fields, and per product the LAST block in pointer order
   carrying that name (absent otherwise) *)
Absent == [absent |-> TRUE]
Expected(m) ==
    [hdr |-> m.hdr,
     prod |-> [p \in Products |->
                 LET js == {j \in DOMAIN m.ptrs : m.blocks[m.ptrs[j]].p = p}
                 IN IF js = {} THEN Absent
                    ELSE LET b == m.blocks[m.ptrs[CHOOSE j \in js : \A i \in js : i <= j]]
                         IN [absent |-> FALSE, rec |-> b.rec, gates |-> b.gates]]]

-----------------------------------------------------------------------------
(* the decoder as a step machine over an arbitrary byte string *)
VARIABLES bytes,    \* input (message starts at offset 0)
          pos,      \* reader position
          pc,       \* "header" | "pointers" | "seek" | "block" | "done"
          hdr,      \* decoded header fields
          ptrs,     \* decoded pointer values
          pi,       \* index of the pointer being processed
          prod,     \* product -> decoded block or Absent
          status    \* "run" | "ok" | "err" | "panic"
dvars == <<bytes, pos, pc, hdr, ptrs, pi, prod, status>>

NoHdr == [none |-> TRUE]
DInit(input) == /\ bytes = input /\ pos = 0 /\ pc = "header" /\ hdr = NoHdr /\ ptrs = <<>> /\ pi = 1
                /\ prod = [p \in Products |-> Absent] /\ status = "run"

DReset(input) == /\ bytes' = input /\ pos' = 0 /\ pc' = "header" /\ hdr' = NoHdr /\ ptrs' = <<>> /\ pi' = 1
                 /\ prod' = [p \in Products |-> Absent] /\ status' = "run"

Fail == /\ status' = "err" /\ pc' = "done" /\ UNCHANGED <<bytes, pos, hdr, ptrs, pi, prod>>

ReadHeader == /\ pc = "header" /\ status = "run"
              /\ IF Fits(DrdHeaderL, bytes, pos)
                   THEN /\ hdr' = DecodeBy(DrdHeaderL, bytes, pos)
                        /\ pos' = pos + SizeOf(DrdHeaderL)
                        /\ pc' = "pointers"
                        /\ UNCHANGED <<bytes, ptrs, pi, prod, status>>
                   ELSE Fail

(* pointers are 4-byte big-endian; a pointer >= 2^31 is beyond any input the model can hold:
   saturate (TLC integers are 32-bit) *)
PtrOf(b) == IF b[1] >= 128 THEN 2147483647 ELSE U31Of(b)

ReadPointers == /\ pc = "pointers" /\ status = "run"
                /\ LET n == U16Of(hdr["data_block_count"]) IN
                   IF pos + 4 * n <= Len(bytes)
                     THEN /\ ptrs' = [j \in 1..n |-> PtrOf(SubSeq(bytes, pos + 4 * (j - 1) + 1, pos + 4 * j))]
                          /\ pos' = pos + 4 * n
                          /\ pc' = "seek" /\ pi' = 1
                          /\ UNCHANGED <<bytes, hdr, prod, status>>
                     ELSE Fail

NameOf(name3) == IF \E p \in Products : BlockNames[p] = name3
                   THEN CHOOSE p \in Products : BlockNames[p] = name3 ELSE "unknown"

(* Seek to the pointer, peek the 4-byte block id, dispatch on its name and read the block.
   Pointers are relative to the first byte of the message, which this machine places at offset 0 of `bytes`.  The
   code reads the message from wherever its reader stands (offset 28 inside a framed stream): PositionInvariance --
   the decoded value and the number of bytes consumed are those of this machine for EVERY stream offset -- is bound
   by the driver, which decodes each vector again behind 28 and behind gap-sized prefixes (the offsets at which an
   absolute position can coincide with a relative pointer). *)
ReadBlock ==
    /\ pc = "seek" /\ status = "run"
    /\ IF pi > Len(ptrs)
         THEN /\ status' = "ok" /\ pc' = "done" /\ UNCHANGED <<bytes, pos, hdr, ptrs, pi, prod>>
         ELSE LET at == ptrs[pi] IN
              IF at > Len(bytes) - 4 THEN Fail
              ELSE LET p == NameOf(SubSeq(bytes, at + 2, at + 4)) IN
                   IF p \in {"VOL", "ELV", "RAD"}
                     THEN IF Fits(BlockLayout(p), bytes, at)
                            THEN /\ prod' = [prod EXCEPT ![p] = [absent |-> FALSE, rec |-> DecodeBy(BlockLayout(p), bytes, at), gates |-> <<>>]]
                                 /\ pos' = at + SizeOf(BlockLayout(p))
                                 /\ pi' = pi + 1
                                 /\ UNCHANGED <<bytes, pc, hdr, ptrs, status>>
                            ELSE Fail
                   ELSE \* every other name is read as a generic moment block first, then routed
                        IF ~Fits(GenL, bytes, at) THEN Fail
                        ELSE LET rec == DecodeBy(GenL, bytes, at)
                                 n == U16Of(rec["number_of_data_moment_gates"]) * (rec["data_word_size"][1] \div 8)
                                 from == at + SizeOf(GenL)
                             IN IF from + n > Len(bytes) THEN Fail
                                ELSE IF p = "unknown" THEN Fail                 \* UnknownNameIsError (the pinned tree panicked)
                                ELSE /\ prod' = [prod EXCEPT ![p] = [absent |-> FALSE, rec |-> rec, gates |-> SubSeq(bytes, from + 1, from + n)]]
                                     /\ pos' = from + n
                                     /\ pi' = pi + 1
                                     /\ UNCHANGED <<bytes, pc, hdr, ptrs, status>>

DNext == ReadHeader \/ ReadPointers \/ ReadBlock
DSpec(input) == DInit(input) /\ [][DNext]_dvars /\ WF_dvars(DNext)

NeverPanics == status # "panic"
Terminates == <>(pc = "done")
PosInRange == pos >= 0 /\ pos <= Len(bytes)
=============================================================================
