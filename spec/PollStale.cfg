SPECIFICATION StaleSpec
CONSTANTS
  MaxVol = 3
  LastSeq = 3
  GetBudget = 2
  ListBudget = 2
  MaxFaults = 0
  MaxUploads = 3
INVARIANT NoStaleDelivered
CHECK_DEADLOCK FALSE
