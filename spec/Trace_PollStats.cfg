SPECIFICATION TSpec
CONSTANTS
  MaxVol = 999
  LastSeq = 55
  GetBudget = 5
  ListBudget = 10
  MaxFaults = 100000
  MaxUploads = 1000000
CONSTRAINT Track
POSTCONDITION Accept
INVARIANT AttemptsInBudget
CHECK_DEADLOCK FALSE
