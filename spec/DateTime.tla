------------------------------ MODULE DateTime ------------------------------
(***************************************************************************)
(* L0 -- ICD date/time fields (nexrad-decode/src/util.rs and the copy in   *)
(* nexrad-data/src/volume/util.rs).                                        *)
(*                                                                         *)
(* An ICD date is a day count d with day 1 = 1970-01-01 ("modified Julian  *)
(* date"); a time is milliseconds (message/radial/volume headers) or       *)
(* minutes (bypass map / clutter map generation times) past midnight.      *)
(* An instant is <<days since epoch, ms of day>>, ordered lexicographically *)
(* (TLC integers are 32-bit: epoch milliseconds do not fit).               *)
(* Civil dates use proleptic-Gregorian integer arithmetic.                 *)
(***************************************************************************)
EXTENDS Integers, Sequences

MsPerDay == 86400000

Instant(d, ms) == <<d - 1, ms>>
InstantMin(d, minutes) == <<d - 1, minutes * 60000>>
Before(a, b) == a[1] < b[1] \/ (a[1] = b[1] /\ a[2] < b[2])

IsLeap(y) == (y % 4 = 0 /\ y % 100 # 0) \/ y % 400 = 0
DaysInMonth(y, m) == IF m = 2 THEN (IF IsLeap(y) THEN 29 ELSE 28)
                     ELSE IF m \in {4, 6, 9, 11} THEN 30 ELSE 31
ValidDate(y, m, d) == m \in 1..12 /\ d \in 1..DaysInMonth(y, m)

(* days since 1970-01-01 of a civil date (algorithm "days_from_civil") *)
DaysFromCivil(y, m, d) ==
    LET yy == IF m <= 2 THEN y - 1 ELSE y
        era == (IF yy >= 0 THEN yy ELSE yy - 399) \div 400
        yoe == yy - era * 400
        mp == (m + 9) % 12
        doy == (153 * mp + 2) \div 5 + d - 1
        doe == yoe * 365 + yoe \div 4 - yoe \div 100 + doy
    IN era * 146097 + doe - 719468

(* civil date <<y, m, d>> of a day number z since 1970-01-01 (z >= 0 here) *)
CivilFromDays(z0) ==
    LET z == z0 + 719468
        era == z \div 146097
        doe == z - era * 146097
        yoe == (doe - doe \div 1460 + doe \div 36524 - doe \div 146096) \div 365
        y == yoe + era * 400
        doy == doe - (365 * yoe + yoe \div 4 - yoe \div 100)
        mp == (5 * doy + 2) \div 153
        d == doy - (153 * mp + 2) \div 5 + 1
        m == IF mp < 10 THEN mp + 3 ELSE mp - 9
    IN <<IF m <= 2 THEN y + 1 ELSE y, m, d>>

(* independent cross-check used by the model configuration: walk the calendar day by day *)
NextCivil(c) == IF c[3] < DaysInMonth(c[1], c[2]) THEN <<c[1], c[2], c[3] + 1>>
                ELSE IF c[2] < 12 THEN <<c[1], c[2] + 1, 1>>
                ELSE <<c[1] + 1, 1, 1>>

TimeOfDay(ms) == <<ms \div 3600000, (ms \div 60000) % 60, (ms \div 1000) % 60, ms % 1000>>
=============================================================================
