---------------------------- MODULE Trace_Rda ----------------------------
(* Mechanism T for RdaStatus:
     {acc, names}     coded accessor on codes 0..255: Debug name or "panic"
     {acc, vals}      flag / scaled / whole-word accessor on ALL 65,536 raw values (integers; -997 = panic)
     {alarm, found, codes}   alarm lookup on all 65,536 codes: found[c+1] in {0,1}, codes[c+1] = code carried by the definition (or -1)
     {msg, in, out}   alarm_messages(): the 14 alarm halfwords and the codes of the listed definitions *)
EXTENDS RdaStatus, Json, IOUtils, SequencesExt
Rec == ndJsonDeserialize(IOEnv.TRACE)
VARIABLE l
Bad(sig, i) == PrintT(<<"MISMATCH", sig, i>>)
NonZeroDefined(s) == SelectSeq(s, LAMBDA c : c # 0 /\ AlarmDefined(c))
Check(e, i) ==
    IF "names" \in DOMAIN e THEN
        IF \A c \in DOMAIN Codes[e.acc] : e.names[c + 1] = Codes[e.acc][c] THEN TRUE ELSE Bad("C12/code/" \o e.acc, i)
    ELSE IF "vals" \in DOMAIN e THEN
        IF \A raw \in 0..(Len(e.vals) - 1) : e.vals[raw + 1] = Expected(e.acc, raw) THEN TRUE
        ELSE IF e.acc = "vcp_number" /\ (\A raw \in (0..65535) \ {32768} : e.vals[raw + 1] = Expected(e.acc, raw)) THEN Bad("C12/vcp_number/i16_min", i)
        ELSE Bad("C12/accessor/" \o e.acc, i)
    ELSE IF "alarm" \in DOMAIN e THEN
        IF \A c \in 0..65535 : (e.found[c + 1] = 1) = AlarmDefined(c) /\ (AlarmDefined(c) => e.codes[c + 1] = c) THEN TRUE ELSE Bad("C12/alarm/lookup", i)
    ELSE IF e.out = NonZeroDefined(e.in) THEN TRUE ELSE Bad("C12/alarm/messages", i)
Init == l = 1
Next == \/ l <= Len(Rec) /\ Check(Rec[l], l) /\ l' = l + 1
        \/ l = Len(Rec) + 1 /\ PrintT(<<"TRACE-CONSUMED", Len(Rec)>>) /\ UNCHANGED l
TSpec == Init /\ [][Next]_l
=============================================================================
