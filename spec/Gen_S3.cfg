INIT GInit
NEXT MNext
CHECK_DEADLOCK FALSE
